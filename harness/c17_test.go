package harness

// C17: keyring call sequences and rotation runs on the real Keyring.

import (
	"bytes"
	"fmt"
	"strings"
	"sync/atomic"
	"testing"
	"time"

	ml "github.com/hashicorp/memberlist"
)

type krPool struct{ keys [][]byte }

func (p *krPool) name(k []byte) string {
	for i, q := range p.keys {
		if bytes.Equal(q, k) && (len(q) > 0) {
			return fmt.Sprint(i)
		}
	}
	if len(k) == 0 {
		for i, q := range p.keys {
			if len(q) == 0 {
				return fmt.Sprint(i)
			}
		}
	}
	return "x" + hx(k)
}

func (p *krPool) ring(keys [][]byte) string {
	if len(keys) == 0 {
		return "-"
	}
	parts := make([]string, len(keys))
	for i, k := range keys {
		parts[i] = p.name(k)
	}
	return strings.Join(parts, ".")
}

func errTok(err error) string {
	if err == nil {
		return "ok"
	}
	s := err.Error()
	switch {
	case strings.Contains(s, "key size must be"):
		return "keySize"
	case strings.Contains(s, "empty primary key"):
		return "emptyPrimary"
	case strings.Contains(s, "not in the keyring"):
		return "notInRing"
	case strings.Contains(s, "removing the primary"):
		return "removePrimary"
	}
	return "err?" + strings.ReplaceAll(s, " ", "_")
}

// held remembers every key list ever returned with a deep snapshot of its contents.
type held struct {
	live [][]byte
	snap [][]byte
}

func altered(hs []held) bool {
	for _, h := range hs {
		if len(h.live) != len(h.snap) {
			return true
		}
		for i := range h.live {
			if !bytes.Equal(h.live[i], h.snap[i]) {
				return true
			}
		}
	}
	return false
}

func snapshot(keys [][]byte) held {
	s := make([][]byte, len(keys))
	for i, k := range keys {
		s[i] = append([]byte(nil), k...)
	}
	return held{live: keys, snap: s}
}

func krSeq(r *rng, id string, nops int) {
	// key pool: mostly valid keys, a few invalid lengths, the empty key
	lens := []int{16, 16, 16, 24, 32, 16, 0, 15, 17, 33, 1, 8, 40, 48, 64, 31}
	pool := &krPool{}
	for _, l := range lens {
		pool.keys = append(pool.keys, r.bytes(l))
	}
	poolHex := make([]string, len(pool.keys))
	for i, k := range pool.keys {
		poolHex[i] = hx(k)
	}
	pick := func() []byte {
		if r.chance(4, 5) {
			return pool.keys[r.intn(6)]
		}
		return pool.keys[r.intn(len(pool.keys))]
	}
	// NewKeyring arguments
	var keys [][]byte
	var prim []byte
	switch r.intn(6) {
	case 0: // empty ring
	case 1:
		keys = [][]byte{pick()}
	default:
		prim = pick()
		for n := r.intn(4); n > 0; n-- {
			keys = append(keys, pick())
		}
	}
	var kr *ml.Keyring
	var hs []held
	newres := "ok"
	func() {
		defer func() {
			if rec := recover(); rec != nil {
				newres = "panic"
			}
		}()
		var err error
		kr, err = ml.NewKeyring(keys, prim)
		newres = errTok(err)
	}()
	primS := "-"
	if len(prim) > 0 {
		primS = pool.name(prim)
	}
	var sb strings.Builder
	fmt.Fprintf(&sb, "C17 seq id=%s pool=%s new=%s;%s newres=%s", id, strings.Join(poolHex, ","), pool.ring(keys), primS, newres)
	if newres != "ok" || kr == nil {
		emit("%s", sb.String())
		return
	}
	g := kr.GetKeys()
	hs = append(hs, snapshot(g))
	fmt.Fprintf(&sb, " ring0=%s ops=", pool.ring(g))
	for i := 0; i < nops; i++ {
		if i > 0 {
			sb.WriteByte(';')
		}
		kind := r.intn(10)
		var opS, res string
		k := pick()
		func() {
			defer func() {
				if rec := recover(); rec != nil {
					res = "panic"
				}
			}()
			switch {
			case kind < 3:
				opS = "add:" + pool.name(k)
				res = errTok(kr.AddKey(k))
			case kind < 5:
				opS = "use:" + pool.name(k)
				res = errTok(kr.UseKey(k))
			case kind < 8:
				opS = "remove:" + pool.name(k)
				res = errTok(kr.RemoveKey(k))
			case kind < 9:
				opS = "getKeys"
				hs = append(hs, snapshot(kr.GetKeys()))
				res = "ok"
			default:
				p := kr.GetPrimaryKey()
				if p == nil {
					opS = "getPrimary:nil"
				} else {
					opS = "getPrimary:" + pool.name(p)
				}
				res = "ok"
			}
		}()
		after := kr.GetKeys()
		al := "0"
		if altered(hs) {
			al = "1"
		}
		hs = append(hs, snapshot(after))
		fmt.Fprintf(&sb, "%s:%s:%s:%s", opS, res, pool.ring(after), al)
	}
	emit("%s", sb.String())
}

func krRot(r *rng, id string, n int) {
	old := r.bytes(16)
	nw := r.bytes([]int{16, 24, 32}[r.intn(3)])
	rings := make([]*ml.Keyring, n)
	for i := range rings {
		rings[i], _ = ml.NewKeyring(nil, old)
	}
	// one case in three: the rings belong to running nodes (configured with a secret key or with a
	// keyring) and "can talk" is judged on real packets and streams as well
	var nodes []*cnode
	if r.chance(1, 3) {
		mode := r.intn(3) // keyring only / SecretKey only / both (the application keeps the keyring it handed in)
		secret := mode >= 1
		comp := r.chance(1, 2)
		for i := range rings {
			nd, err := newCnode(ccfg{name: fmt.Sprintf("k%d", i), key: old, secretKey: secret, ringToo: mode == 2, label: "lbl", verifyIn: true, verifyOut: true, compress: comp})
			if err != nil || nd.kr == nil {
				for _, x := range nodes {
					x.m.Shutdown()
				}
				nodes = nil
				break
			}
			nodes = append(nodes, nd)
		}
		for i, nd := range nodes {
			rings[i] = nd.kr
		}
		defer func() {
			for _, x := range nodes {
				x.m.Shutdown()
			}
		}()
	}
	// half of these runs exchange stream messages whose sealed form is larger than a packet buffer (64 KiB),
	// incompressible: a stream must open under any installed key, not just the receiver's first one
	var bigBody []byte
	if nodes != nil && r.chance(1, 2) {
		bigBody = r.bytes(70000)
	}
	realTalk := func(s, d int) bool {
		snd, rcv := nodes[s], nodes[d]
		to := &ml.Node{Name: rcv.m.LocalNode().Name, Addr: []byte{10, 0, 0, 9}, Port: 7946, PMax: 5}
		pm := []byte(fmt.Sprintf("pkt-%d-%d", s, d))
		snd.tr.take()
		snd.m.SendBestEffort(to, pm)
		pk := snd.tr.take()
		rcv.del.take()
		if len(pk) != 1 || rcv.ingest(pk[0]) {
			return false
		}
		// what left the node is sealed under the primary key of the keyring the application rotates
		if ct, _, err := ml.RemoveLabelHeaderFromPacket(pk[0]); err != nil {
			return false
		} else if _, err := ml.VerifDecryptPayload([][]byte{rings[s].GetPrimaryKey()}, ct, []byte("lbl")); err != nil {
			return false
		}
		if got := rcv.del.take(); len(got) != 1 || !bytes.Equal(got[0], pm) {
			return false
		}
		sm := append([]byte(fmt.Sprintf("str-%d-%d", s, d)), bigBody...)
		data := captureStream(snd, func() { snd.m.SendReliable(to, sm) })
		ml.VerifHandleConn(rcv.m, newFragConn(data, nil))
		got := rcv.del.take()
		return len(got) == 1 && bytes.Equal(got[0], sm)
	}
	shape := func(kr *ml.Keyring) string {
		var sb strings.Builder
		for _, k := range kr.GetKeys() {
			switch {
			case bytes.Equal(k, old):
				sb.WriteByte('o')
			case bytes.Equal(k, nw):
				sb.WriteByte('n')
			default:
				sb.WriteByte('?')
			}
		}
		return sb.String()
	}
	installed := make([]bool, n)
	used := make([]bool, n)
	removed := make([]bool, n)
	all := func(b []bool) bool {
		for _, x := range b {
			if !x {
				return false
			}
		}
		return true
	}
	var steps, states, talks []string
	msg := []byte("rotation probe message")
	label := []byte("lbl")
	for !all(removed) {
		// choose an enabled step at random (duplicates of done steps allowed too)
		i := r.intn(n)
		var st string
		switch {
		case !all(installed):
			if r.chance(1, 6) && installed[i] {
				st = "i"
			} else {
				for installed[i] {
					i = (i + 1) % n
				}
				st = "i"
			}
			_ = rings[i].AddKey(nw)
			installed[i] = true
		case !all(used):
			if r.chance(1, 6) {
				st = "i" // late duplicate install
				_ = rings[i].AddKey(nw)
			} else {
				for used[i] {
					i = (i + 1) % n
				}
				st = "u"
				_ = rings[i].UseKey(nw)
				used[i] = true
			}
		default:
			if r.chance(1, 6) {
				st = "u"
				_ = rings[i].UseKey(nw)
			} else {
				for removed[i] {
					i = (i + 1) % n
				}
				st = "r"
				_ = rings[i].RemoveKey(old)
				removed[i] = true
			}
		}
		steps = append(steps, fmt.Sprintf("%s%d", st, i))
		sh := make([]string, n)
		for j := range rings {
			sh[j] = shape(rings[j])
		}
		states = append(states, strings.Join(sh, ","))
		// every ordered pair: seal under sender's primary, open with receiver's ring
		ok := "1"
		for s := 0; s < n && ok == "1"; s++ {
			ct, err := ml.VerifEncryptPayload(1, rings[s].GetPrimaryKey(), msg, label)
			if err != nil {
				ok = "0"
				break
			}
			for d := 0; d < n; d++ {
				pt, err := ml.VerifDecryptPayload(rings[d].GetKeys(), ct, label)
				if err != nil || !bytes.Equal(pt, msg) {
					ok = "0"
					break
				}
				if nodes != nil && s != d && !realTalk(s, d) {
					ok = "0"
					break
				}
			}
		}
		talks = append(talks, ok)
	}
	emit("C17 rot id=%s n=%d real=%d old=%s new=%s steps=%s states=%s talk=%s", id, n, len(nodes), hx(old), hx(nw),
		strings.Join(steps, ","), strings.Join(states, ";"), strings.Join(talks, ","))
}

// krConc: two keyring calls started at the same instant on two goroutines, many rounds per case; each
// round's results and final ring must be explained by one of the two sequential orders.
func krConc(r *rng, id string) { krConcP("C17", r, id) }

func krConcP(prop string, r *rng, id string) {
	pool := &krPool{}
	for i := 0; i < 4; i++ {
		pool.keys = append(pool.keys, r.bytes([]int{16, 24, 32, 16}[i]))
	}
	if r.chance(1, 4) {
		krConcBig(prop, r, id)
		return
	}
	if r.chance(1, 3) {
		krRaceUseRemove(prop, r, id)
		return
	}
	poolHex := make([]string, len(pool.keys))
	for i, k := range pool.keys {
		poolHex[i] = hx(k)
	}
	kinds := []string{"add", "use", "remove"}
	call := func(kr *ml.Keyring, kind string, k []byte) (res string) {
		defer func() {
			if rec := recover(); rec != nil {
				res = "panic"
			}
		}()
		switch kind {
		case "add":
			return errTok(kr.AddKey(k))
		case "use":
			return errTok(kr.UseKey(k))
		default:
			return errTok(kr.RemoveKey(k))
		}
	}
	// the pair is fixed per case (the interesting ones first), the race is repeated
	ka, kb := kinds[r.intn(3)], kinds[r.intn(3)]
	ia, ib := 1+r.intn(3), 1+r.intn(3)
	nring := 1 + r.intn(3)
	rounds := 3000
	if r.chance(1, 2) {
		// promote and retire the same installed secondary key
		nring = 3
		ia = 1 + r.intn(2)
		ka, kb, ib = "use", "remove", ia
		rounds = 20000
	}
	bad := ""
	for round := 0; round < rounds && bad == ""; round++ {
		kr, _ := ml.NewKeyring(pool.keys[1:1+nring-1], pool.keys[0])
		if kr == nil {
			return
		}
		ring0 := pool.ring(kr.GetKeys())
		var ra, rb string
		start := make(chan struct{})
		done := make(chan struct{}, 2)
		go func() { <-start; ra = call(kr, ka, pool.keys[ia]); done <- struct{}{} }()
		go func() { <-start; rb = call(kr, kb, pool.keys[ib]); done <- struct{}{} }()
		close(start)
		<-done
		<-done
		final := pool.ring(kr.GetKeys())
		line := fmt.Sprintf(prop+" conc id=%s pool=%s ring0=%s a=%s:%d:%s b=%s:%d:%s final=%s", id, strings.Join(poolHex, ","), ring0, ka, ia, ra, kb, ib, rb, final)
		// only the first round and any round whose outcome differs from it are emitted (the driver judges each)
		if round == 0 {
			emit("%s", line)
		} else if !krConcLegal(pool, kr, ring0, ka, ia, ra, kb, ib, rb, final) {
			emit("%s", strings.Replace(line, "id="+id, fmt.Sprintf("id=%s.%d", id, round), 1))
			bad = "x"
		}
	}
}

// krConcLegal replays the two calls sequentially on fresh real keyrings in both orders (the real code is
// its own sequential reference here; the Lean model judges every emitted line independently).
// krConcBig: a new key is installed while an old one is retired, on a ring of several hundred keys (whatever
// a call does between looking at the ring and changing it then takes long enough for the other call to land
// in between). Both calls must succeed, the new key must be installed and the old one gone; the first round
// and any round where that fails are handed to the driver with the full rings.
func krConcBig(prop string, r *rng, id string) {
	pool := &krPool{}
	size := 600
	for i := 0; i < size+1; i++ {
		pool.keys = append(pool.keys, r.bytes(16))
	}
	poolHex := make([]string, len(pool.keys))
	idx := map[string]int{}
	for i, k := range pool.keys {
		poolHex[i] = hx(k)
		idx[string(k)] = i
	}
	ringS := func(keys [][]byte) string {
		parts := make([]string, len(keys))
		for i, k := range keys {
			parts[i] = fmt.Sprint(idx[string(k)])
		}
		return strings.Join(parts, ".")
	}
	kr, err := ml.NewKeyring(pool.keys[1:size], pool.keys[0])
	if err != nil {
		return
	}
	newI := size
	for round := 0; round < 2500; round++ {
		cur := kr.GetKeys()
		oldK := cur[1+r.intn(len(cur)-1)]
		oldI := idx[string(oldK)]
		var ring0 string
		if round == 0 {
			ring0 = ringS(cur)
		}
		snapshot := append([][]byte(nil), cur...)
		var ra, rb string
		start := make(chan struct{})
		done := make(chan struct{}, 2)
		go func() { <-start; ra = errTok(kr.AddKey(pool.keys[newI])); done <- struct{}{} }()
		go func() { <-start; rb = errTok(kr.RemoveKey(oldK)); done <- struct{}{} }()
		close(start)
		<-done
		<-done
		fin := kr.GetKeys()
		hasNew, hasOld := false, false
		for _, k := range fin {
			hasNew = hasNew || bytes.Equal(k, pool.keys[newI])
			hasOld = hasOld || bytes.Equal(k, oldK)
		}
		ok := ra == "ok" && rb == "ok" && hasNew && !hasOld && len(fin) == len(snapshot)
		if round == 0 || !ok {
			if ring0 == "" {
				ring0 = ringS(snapshot)
			}
			rid := id
			if round > 0 {
				rid = fmt.Sprintf("%s.%d", id, round)
			}
			emit("%s conc id=%s pool=%s ring0=%s a=add:%d:%s b=remove:%d:%s final=%s", prop, rid, strings.Join(poolHex, ","), ring0, newI, ra, oldI, rb, ringS(fin))
			if !ok {
				return
			}
		}
		// back to a ring without the new key and with the old one (at the end) for the next round
		kr.RemoveKey(pool.keys[newI])
		kr.AddKey(oldK)
	}
}

// krRaceUseRemove: the same installed secondary key is promoted on one goroutine and retired on another, many
// thousand times, the two calls released together by a spinning barrier with a varying head start for one of
// them. Exactly one of them can succeed (promote first: the retire call is refused, the key is primary;
// retire first: the promote call is refused, the key is gone).
func krRaceUseRemove(prop string, r *rng, id string) {
	pool := &krPool{}
	for i := 0; i < 3; i++ {
		pool.keys = append(pool.keys, r.bytes([]int{16, 24, 32}[i]))
	}
	poolHex := make([]string, len(pool.keys))
	for i, k := range pool.keys {
		poolHex[i] = hx(k)
	}
	k := pool.keys[1+r.intn(2)]
	ki := 1
	if bytes.Equal(k, pool.keys[2]) {
		ki = 2
	}
	var round atomic.Int64
	var kr atomic.Pointer[ml.Keyring]
	var resA, resB atomic.Value
	var doneA, doneB atomic.Int64
	stop := make(chan struct{})
	worker := func(use bool, done *atomic.Int64, res *atomic.Value, skewOf func(int64) int) {
		seen := int64(0)
		for {
			for round.Load() == seen {
				select {
				case <-stop:
					return
				default:
				}
			}
			seen = round.Load()
			for i := skewOf(seen); i > 0; i-- {
				_ = i
			}
			ring := kr.Load()
			if use {
				res.Store(errTok(ring.UseKey(k)))
			} else {
				res.Store(errTok(ring.RemoveKey(k)))
			}
			done.Store(seen)
		}
	}
	go worker(true, &doneA, &resA, func(n int64) int { return int(n % 7 * 13) })
	go worker(false, &doneB, &resB, func(n int64) int { return int(n % 5 * 17) })
	defer close(stop)
	rounds := int64(40000)
	began := time.Now()
	for n := int64(1); n <= rounds; n++ {
		// (three spinning goroutines: on a machine that is busy with other things the rounds are cut short
		// rather than run into the harness timeout)
		if n%512 == 0 && time.Since(began) > 20*time.Second {
			break
		}
		ring, _ := ml.NewKeyring(pool.keys[1:], pool.keys[0])
		kr.Store(ring)
		round.Store(n)
		for doneA.Load() != n || doneB.Load() != n {
		}
		ra, rb := resA.Load().(string), resB.Load().(string)
		final := pool.ring(ring.GetKeys())
		okUseFirst := ra == "ok" && rb != "ok"
		okRemoveFirst := ra != "ok" && rb == "ok"
		if n == 1 || !(okUseFirst || okRemoveFirst) {
			rid := id
			if n > 1 {
				rid = fmt.Sprintf("%s.%d", id, n)
			}
			emit("%s conc id=%s pool=%s ring0=0.1.2 a=use:%d:%s b=remove:%d:%s final=%s", prop, rid, strings.Join(poolHex, ","), ki, ra, ki, rb, final)
			if n > 1 {
				return
			}
		}
	}
}

func krConcLegal(pool *krPool, _ *ml.Keyring, ring0 string, ka string, ia int, ra string, kb string, ib int, rb string, final string) bool {
	try := func(firstA bool) bool {
		var idx []int
		for _, t := range strings.Split(ring0, ".") {
			var i int
			if _, err := fmt.Sscanf(t, "%d", &i); err != nil {
				return true // unexpected ring syntax: leave the verdict to the driver
			}
			idx = append(idx, i)
		}
		var keys [][]byte
		for _, i := range idx[1:] {
			keys = append(keys, pool.keys[i])
		}
		kr, err := ml.NewKeyring(keys, pool.keys[idx[0]])
		if err != nil {
			return true
		}
		do := func(kind string, k []byte) string {
			switch kind {
			case "add":
				return errTok(kr.AddKey(k))
			case "use":
				return errTok(kr.UseKey(k))
			default:
				return errTok(kr.RemoveKey(k))
			}
		}
		var xa, xb string
		if firstA {
			xa = do(ka, pool.keys[ia])
			xb = do(kb, pool.keys[ib])
		} else {
			xb = do(kb, pool.keys[ib])
			xa = do(ka, pool.keys[ia])
		}
		return xa == ra && xb == rb && pool.ring(kr.GetKeys()) == final
	}
	return try(true) || try(false)
}

func TestC17(t *testing.T) {
	nseq, nrot := envInt("VERIF_N", 4000), 300
	if thorough() {
		nseq, nrot = envInt("VERIF_N", 400000), 20000
	}
	forCases(nseq, 17, "s", func(i int, r *rng, id string) { krSeq(r, id, 1+r.intn(24)) })
	forCases(nrot, 18, "r", func(i int, r *rng, id string) { krRot(r, id, 2+r.intn(5)) })
	forCases(nrot/10+4, 19, "c", func(i int, r *rng, id string) { krConc(r, id) })
}
