package harness

import (
	"bytes"
	"encoding/binary"
	"fmt"
	"net"
	"strings"
	"sync"
	"testing"
	"time"

	ml "github.com/hashicorp/memberlist"
)

// tapConn records what the node writes to a stream and feeds it scripted input.
type tapConn struct{ *fragConn }

// c15Tap drives every sending path of a node that enforces outgoing encryption and inspects
// each buffer handed to the transport or written to a stream.
func c15Tap(r *rng, id string) {
	label := []string{"", "", "blue", strings.Repeat("z", 40)}[r.intn(4)]
	skip := label != "" && r.chance(1, 3)
	k1, k2 := mkKey(r, 16), mkKey(r, []int{16, 24, 32}[r.intn(3)])
	proto := uint8([]int{2, 2, 1, 5}[r.intn(4)])
	late := r.chance(1, 3)   // keyring empty at creation, key installed at run time
	rotate := r.chance(1, 3) // rotation in progress: a second key installed, maybe made primary
	c := ccfg{label: label, key: k1, verifyIn: true, verifyOut: true, proto: proto, compress: r.chance(1, 2), skipIn: skip, name: "S"}
	if late {
		c.key = nil
		c.emptyRing = true
	} else if r.chance(1, 3) {
		// a ring created with further (retired) keys that do not include the primary
		c.keys = [][]byte{mkKey(r, 16), mkKey(r, 32)}
	}
	n, err := newCnode(c)
	if err != nil {
		emit("C15 tap id=%s err=create", id)
		return
	}
	defer n.m.Shutdown()
	primary := k1
	if late {
		n.kr.AddKey(k1)
	}
	if rotate {
		n.kr.AddKey(k2)
		if r.chance(1, 2) {
			n.kr.UseKey(k2)
			primary = k2
		}
		// the rest of a rotation, as an operator's tooling drives it: requests repeated, retried after
		// they took effect, or naming keys that are not (or no longer) installed
		k3 := mkKey(r, 16)
		ks := [][]byte{k1, k2, k3}
		for j, steps := 0, r.intn(7); j < steps; j++ {
			k := ks[r.intn(3)]
			switch r.intn(4) {
			case 0:
				n.kr.AddKey(k)
			case 1:
				n.kr.UseKey(k)
			default:
				n.kr.RemoveKey(k)
			}
		}
		if p := n.kr.GetPrimaryKey(); p != nil {
			primary = p
		}
	}
	secret := []byte("SECRET-PAYLOAD-0123456789")
	n.del.meta = []byte("SECRET-META")
	n.del.state = []byte("SECRET-STATE-abcdefghij")
	peerName := "peer-SECRETNAME"
	pmax := uint8([]int{2, 5}[r.intn(2)])
	ml.VerifAliveNode(n.m, 1, peerName, []byte{10, 0, 0, 1}, 7946, []byte("SECRET-PEERMETA"), []uint8{1, pmax, 2, 0, 0, 0}, nil, false)
	ml.VerifAliveNode(n.m, 1, "relay-SECRETNAME", []byte{10, 0, 0, 2}, 7946, nil, []uint8{1, 5, 2, 0, 0, 0}, nil, false)
	n.m.UpdateNode(time.Millisecond) // re-advertise with metadata: queues an alive broadcast carrying it
	to := &ml.Node{Name: peerName, Addr: []byte{10, 0, 0, 1}, Port: 7946, PMax: pmax}
	var streams [][]byte
	dialCapture := func() (*fragConn, func()) {
		fc := newFragConn(nil, nil)
		n.tr.dial = func(addr string) (net.Conn, error) { return fc, nil }
		return fc, func() { streams = append(streams, fc.written()); n.tr.dial = nil }
	}
	seal := func(msg []byte, stream bool) []byte {
		// what a peer with the same key and label would send us
		aadLabel := label
		if !stream {
			ct, _ := ml.VerifEncryptPayload(1, primary, msg, []byte(aadLabel))
			if skip || label == "" {
				return ct
			}
			out, _ := ml.AddLabelHeaderToPacket(ct, label)
			return out
		}
		hdr := []byte{10, 0, 0, 0, 0}
		binary.BigEndian.PutUint32(hdr[1:], uint32(ml.VerifEncryptedLength(1, len(msg))))
		ct, _ := ml.VerifEncryptPayload(1, primary, msg, append(append([]byte(nil), hdr...), []byte(aadLabel)...))
		out := append(hdr, ct...)
		if skip || label == "" {
			return out
		}
		return append(append([]byte{244, byte(len(label))}, []byte(label)...), out...)
	}
	var bads []string
	func() {
		defer func() {
			if rec := recover(); rec != nil {
				bads = append(bads, "panic")
			}
		}()
		n.tr.take()
		// 1. user messages, of many lengths (sealing and sizing depend on the length)
		for k := 0; k < 4; k++ {
			long := append(append([]byte{}, secret...), bytes.Repeat([]byte("SECRET-PAYLOAD-0123456789"), 60)...)
			n.m.SendBestEffort(to, long[:16+r.intn(1250)])
			_, fin := dialCapture()
			n.m.SendReliable(to, long[:16+r.intn(1400)])
			fin()
		}
		n.m.SendBestEffort(to, secret)
		n.m.SendToAddress(ml.Address{Addr: "10.0.0.1:7946", Name: peerName}, secret)
		_, fin := dialCapture()
		n.m.SendReliable(to, secret)
		fin()
		// 2. gossip (membership broadcasts carry names and metadata) and a user broadcast
		n.del.q.QueueBroadcast(&ubc{secret})
		ml.VerifGossip(n.m)
		// 3. ping with piggyback, ack to an inbound ping, relay + nack for an indirect ping
		ping, _ := ml.VerifEncode(0, 9, "S", nil)
		ml.VerifSendMsg(n.m, ml.Address{Addr: "10.0.0.1:7946", Name: peerName}, ping)
		n.ingest(seal(ping, false))
		ind := ml.VerifEncodeIndirectPing(33, []byte{10, 0, 0, 1}, 7946, peerName, true, []byte{10, 0, 0, 2}, 7946, "relay-SECRETNAME")
		n.ingest(seal(ind, false))
		// 3b. the stream fallback of a probe, as initiator
		_, finp := dialCapture()
		ml.VerifSendPingAndWaitForAck(n.m, "10.0.0.1:7946", peerName, 4242, time.Now().Add(50*time.Millisecond))
		finp()
		// 4. push/pull as initiator (request) and as host (response), TCP ping ack, error reply
		_, fin = dialCapture()
		n.m.Join([]string{peerName + "/10.0.0.1:7946"})
		fin()
		req := ml.VerifEncodePushPullHeader(0, 0, false)
		hc := newFragConn(seal(req, true), nil)
		ml.VerifHandleConn(n.m, hc)
		streams = append(streams, hc.written())
		tping, _ := ml.VerifEncode(0, 77, "S", nil)
		hc = newFragConn(seal(tping, true), nil)
		ml.VerifHandleConn(n.m, hc)
		streams = append(streams, hc.written())
		hc = newFragConn(seal([]byte{8, 0xc1}, true), nil) // undecodable user message header: an error path
		ml.VerifHandleConn(n.m, hc)
		streams = append(streams, hc.written())
		hc = newFragConn([]byte{6, 1, 2, 3}, nil) // plaintext push/pull: rejected, error reply
		ml.VerifHandleConn(n.m, hc)
		streams = append(streams, hc.written())
		time.Sleep(20 * time.Millisecond)
	}()
	pkts := n.tr.take()
	markers := [][]byte{secret, []byte("SECRET-META"), []byte("SECRET-STATE"), []byte("SECRETNAME"), []byte("SECRET-PEERMETA")}
	clear := func(b []byte) bool {
		for _, mk := range markers {
			if bytes.Contains(b, mk) {
				return true
			}
		}
		return false
	}
	for i, p := range pkts {
		body := p
		if label != "" {
			nb, lab, err := ml.RemoveLabelHeaderFromPacket(p)
			if err != nil || lab != label {
				bads = append(bads, fmt.Sprintf("packet-%d-without-own-label-header", i))
				continue
			}
			body = nb
		}
		if clear(p) {
			bads = append(bads, fmt.Sprintf("packet-%d-cleartext-marker", i))
		}
		if _, err := ml.VerifDecryptPayload([][]byte{primary}, body, []byte(label)); err != nil {
			bads = append(bads, fmt.Sprintf("packet-%d-not-ciphertext-under-primary-key-and-label", i))
		}
	}
	nonEmpty := 0
	for i, s := range streams {
		if len(s) == 0 {
			continue
		}
		nonEmpty++
		if clear(s) {
			bads = append(bads, fmt.Sprintf("stream-%d-cleartext-marker", i))
		}
		body := s
		if label != "" && len(s) > 0 && s[0] == 244 {
			nb, lab, err := ml.RemoveLabelHeaderFromPacket(s)
			if err != nil || lab != label {
				bads = append(bads, fmt.Sprintf("stream-%d-foreign-label-header", i))
				continue
			}
			body = nb
		}
		// one or more frames [encryptMsg][len][ciphertext]
		for len(body) > 0 {
			if len(body) < 5 || body[0] != 10 {
				bads = append(bads, fmt.Sprintf("stream-%d-unencrypted-frame", i))
				break
			}
			l := int(binary.BigEndian.Uint32(body[1:5]))
			if len(body) < 5+l {
				bads = append(bads, fmt.Sprintf("stream-%d-short-frame", i))
				break
			}
			aad := append(append([]byte(nil), body[:5]...), []byte(label)...)
			if _, err := ml.VerifDecryptPayload([][]byte{primary}, body[5:5+l], aad); err != nil {
				bads = append(bads, fmt.Sprintf("stream-%d-not-ciphertext-under-primary-key-and-label", i))
				break
			}
			body = body[5+l:]
		}
	}
	bs := "-"
	if len(bads) > 0 {
		if len(bads) > 6 {
			bads = bads[:6]
		}
		bs = strings.Join(bads, ",")
	}
	emit("C15 tap id=%s label=%d skip=%d proto=%d comp=%d late=%d rotate=%d pmax=%d packets=%d streams=%d bad=%s",
		id, len(label), b2i(skip), proto, b2i(c.compress), b2i(late), b2i(rotate), pmax, len(pkts), nonEmpty, bs)
}

func TestC15(t *testing.T) {
	n := envInt("VERIF_N", 300)
	if thorough() {
		n = envInt("VERIF_N", 20000)
	}
	forCases(n, 151, "t", func(i int, r *rng, id string) { c15Tap(r, id) })
	forCases(6, 152, "r", func(i int, r *rng, id string) { c15Race(r, id) })
}

// c15Race: mid-rotation traffic in both directions at once: peers that still seal under the old key are
// being read on some goroutines while this node sends on others. Everything that leaves must be sealed
// under the current primary key, whatever the interleaving.
func c15Race(r *rng, id string) {
	oldK, newK := mkKey(r, 16), mkKey(r, []int{16, 24, 32}[r.intn(3)])
	label := []string{"", "lbl"}[r.intn(2)]
	n, err := newCnode(ccfg{name: "S", label: label, key: oldK, verifyIn: true, verifyOut: true})
	if err != nil {
		return
	}
	defer n.m.Shutdown()
	n.kr.AddKey(newK)
	n.kr.UseKey(newK)
	user := append([]byte{8}, []byte("from-a-peer-on-the-old-key")...)
	oldPkt, _ := ml.VerifEncryptPayload(1, oldK, user, []byte(label))
	if label != "" {
		oldPkt, _ = ml.AddLabelHeaderToPacket(oldPkt, label)
	}
	n.tr.take()
	var wg sync.WaitGroup
	stop := time.Now().Add(time.Duration(40+r.intn(40)) * time.Millisecond)
	for g := 0; g < 6; g++ {
		wg.Add(1)
		go func(g int) {
			defer wg.Done()
			defer func() { recover() }()
			for time.Now().Before(stop) {
				if g%2 == 0 {
					ml.VerifIngestPacket(n.m, append([]byte(nil), oldPkt...), fromAddr, time.Now())
				} else {
					n.m.SendToAddress(ml.Address{Addr: "10.0.0.1:7946", Name: "peer"}, []byte("SECRET-OUT"))
				}
			}
		}(g)
	}
	wg.Wait()
	pkts := n.tr.take()
	wrongKey, clear := 0, 0
	for _, p := range pkts {
		body := p
		if label != "" {
			if nb, _, err := ml.RemoveLabelHeaderFromPacket(p); err == nil {
				body = nb
			}
		}
		if bytes.Contains(p, []byte("SECRET-OUT")) {
			clear++
		}
		if _, err := ml.VerifDecryptPayload([][]byte{newK}, body, []byte(label)); err != nil {
			wrongKey++
		}
	}
	bs := "-"
	if clear > 0 {
		bs = fmt.Sprintf("packets-in-clear@%d-of-%d", clear, len(pkts))
	} else if wrongKey > 0 {
		bs = fmt.Sprintf("packets-not-sealed-under-the-primary-key-while-old-key-traffic-was-being-read@%d-of-%d", wrongKey, len(pkts))
	}
	emit("C15 race id=%s label=%d packets=%d bad=%s", id, len(label), len(pkts), bs)
}
