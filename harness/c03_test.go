package harness

import (
	"fmt"
	"strings"
	"testing"
	"testing/synctest"
	"time"

	ml "github.com/hashicorp/memberlist"
)

// ---- (a) the probe cursor against the model ----

func c03Cursor(r *rng, id string) { cursorLeg("C03", r, id) }

// cursorLeg: the probe schedule tick by tick against the cursor model (also run under C05: re-convergence rests on
// suspected members still being probed).
func cursorLeg(prop string, r *rng, id string) {
	n, err := newC19(0, "off", 8)
	if err != nil {
		return
	}
	m := n.m
	defer m.Shutdown()
	addrOf := map[string]string{}
	snap := func() string {
		s := ml.VerifSnapshotState(m)
		var parts []string
		for _, nd := range s.Nodes {
			gone := nd.State == ml.StateDead || nd.State == ml.StateLeft
			old := time.Since(nd.StateChange) > 30*time.Second
			parts = append(parts, fmt.Sprintf("%s/%d/%d", nd.Name, b2i(gone), b2i(gone && old)))
		}
		return fmt.Sprintf("%s@%d", strings.Join(parts, ","), s.ProbeIndex)
	}
	var sb strings.Builder
	fmt.Fprintf(&sb, "%s cursor id=%s init=%s ops=", prop, id, snap())
	next := 0
	steps := 5 + r.intn(40)
	for i := 0; i < steps; i++ {
		if i > 0 {
			sb.WriteByte(';')
		}
		k := r.intn(10)
		switch {
		case k < 5:
			// one probe tick; a ping (if any) is answered at once so that nothing else changes
			ml.VerifResetBroadcasts(m)
			n.tr.take()
			done := make(chan struct{})
			go func() { ml.VerifProbe(m); close(done) }()
			synctest.Wait()
			pk, to := n.tr.takeTo()
			target := "-"
			// (a suspected member gets its ping together with the accusation, in one compound packet)
			for i, p := range pk {
				for _, part := range simParts(p) {
					if len(part) > 1 && part[0] == 0 && target == "-" {
						target = addrOf[to[i]]
						if seq, _, ok := ml.VerifDecodePing(part[1:]); ok {
							ack, _ := ml.VerifEncode(2, seq, "", nil)
							ml.VerifIngestPacket(m, ack, fromAddr, time.Now())
						}
					}
				}
			}
			<-done
			synctest.Wait()
			fmt.Fprintf(&sb, "P:%s>%s", target, snap())
		case k < 7 && next < 9:
			name := fmt.Sprintf("m%d", next)
			addr := fmt.Sprintf("10.0.2.%d:7946", next+1)
			addrOf[addr] = name
			ml.VerifAliveNode(m, 1, name, []byte{10, 0, 2, byte(next + 1)}, 7946, nil, []uint8{1, 5, 2, 0, 0, 0}, nil, false)
			next++
			fmt.Fprintf(&sb, "A:%s>%s", name, snap())
		case k < 9 && next > 0:
			name := fmt.Sprintf("m%d", r.intn(next))
			if r.chance(1, 3) {
				// a suspected member is still a member: the schedule keeps visiting it (that is how the
				// accusation reaches it and the refutation comes back)
				for _, nd := range ml.VerifSnapshotState(m).Nodes {
					if nd.Name == name {
						ml.VerifSuspectNode(m, nd.Incarnation, name, "x")
					}
				}
				fmt.Fprintf(&sb, "S:%s>%s", name, snap())
				continue
			}
			from := []string{"x", name}[r.intn(2)]
			ml.VerifDeadNode(m, 1, name, from)
			if r.chance(1, 2) {
				ml.VerifSetStateChange(m, name, time.Now().Add(-time.Hour))
			}
			fmt.Fprintf(&sb, "D:%s>%s", name, snap())
		case k == 9 && r.chance(1, 2):
			// gossip and push/pull ticks pick random peers; the probe order must not be disturbed
			ml.VerifQueueBroadcast(m, "x", []byte{8, 1, 2, 3})
			if r.chance(1, 2) {
				ml.VerifGossip(m)
				fmt.Fprintf(&sb, "G:->%s", snap())
			} else {
				ml.VerifPushPull(m)
				synctest.Wait()
				fmt.Fprintf(&sb, "X:->%s", snap())
			}
		default:
			if next > 0 {
				name := fmt.Sprintf("m%d", r.intn(next))
				ml.VerifAliveNode(m, uint32(2+i), name, []byte{10, 0, 2, byte(name[1]-'0') + 1}, 7946, nil, []uint8{1, 5, 2, 0, 0, 0}, nil, false)
				fmt.Fprintf(&sb, "V:%s>%s", name, snap())
			} else {
				fmt.Fprintf(&sb, "N:->%s", snap())
			}
		}
	}
	emit("%s", sb.String())
}

// ---- (b) crash detection in the simulator ----

func c03Crash(r *rng, id string) {
	nn := 3 + r.intn(10)
	if thorough() && r.chance(1, 4) {
		nn = 12 + r.intn(28)
	}
	c := defaultSimCfg()
	c.indirect = []int{0, 1, 3}[r.intn(3)]
	c.tcpPings = r.chance(1, 2)
	// one run in six: no indirect checks and a probe timeout above the probe interval (somebody lowered the
	// interval and kept the default timeout): the round ends at the interval, the member is suspected all the same
	tightProbe := r.chance(1, 6)
	if tightProbe {
		c.indirect = 0
		c.probeTimeout = c.probeInterval + 100*time.Millisecond
	}
	c.pushPull = []time.Duration{5 * time.Second, 15 * time.Second, 30 * time.Second}[r.intn(3)]
	enc := r.chance(1, 6)
	if enc {
		c.key = []byte("0123456789abcdef")
		c.label = "sim"
	}
	c.writerOnSend = r.chance(1, 3)
	cl, err := newSimCluster(r, nn, c)
	if err != nil {
		emit("C03 sim id=%s err=create", id)
		return
	}
	cl.net.latMin, cl.net.latMax = 0, 50*time.Millisecond
	ownEvidence := !enc && r.chance(1, 2)
	loss := []int{0, 0, 5, 20}[r.intn(4)]
	// crash schedule: some during the joins, some later
	ncrash := 1 + r.intn(1+nn/3)
	crashAt := map[int]time.Duration{}
	for len(crashAt) < ncrash {
		i := 1 + r.intn(nn-1)
		crashAt[i] = time.Duration(r.intn(20000)) * time.Millisecond
	}
	mon := cl.startMonitor()
	hangs := map[int]bool{}
	for i := range crashAt {
		hangs[i] = c.tcpPings && r.chance(1, 3)
	}
	// some crashes take the member's route with them: packets to it are refused by the sender's own stack
	unreach := map[int]bool{}
	for i := range crashAt {
		unreach[i] = !hangs[i] && r.chance(1, 3)
	}
	go cl.joinAll(400 * time.Millisecond)
	takeover := r.chance(1, 3)
	var extra []*simNode
	crashTime := map[string]time.Duration{}
	// known[s][c] = survivor s listed c at some point
	known := map[string]map[string]bool{}
	dropAt := map[string]map[string]time.Duration{}
	for _, nd := range cl.nodes {
		known[nd.name] = map[string]bool{}
		dropAt[nd.name] = map[string]time.Duration{}
	}
	suspMax := time.Duration(c.suspMaxMult) * ml.VerifSuspicionTimeout(c.suspMult, nn, c.probeInterval)
	worst := time.Duration(2*(nn+1))*time.Duration(c.awareMax)*c.probeInterval + suspMax
	lastCrash := time.Duration(0)
	for _, t := range crashAt {
		if t > lastCrash {
			lastCrash = t
		}
	}
	horizon := lastCrash + worst + 10*time.Second
	step := 100 * time.Millisecond
	for cl.since() < horizon {
		time.Sleep(step)
		now := cl.since()
		for i, t := range crashAt {
			if !cl.nodes[i].crashed && now >= t {
				if hangs[i] {
					cl.nodes[i].hang() // stops responding but keeps its listening socket (a frozen process)
				} else {
					cl.nodes[i].crash()
					if unreach[i] && !takeover {
						cl.nodes[i].tr.unreachable.Store(true)
					}
				}
				crashTime[cl.nodes[i].name] = now
				if takeover && now > 6*time.Second && !hangs[i] {
					// a new member under another name takes over the crashed member's address and port
					cl.net.mu.Lock()
					delete(cl.net.nodes, cl.nodes[i].tr.addr)
					cl.net.mu.Unlock()
					if nv, err := cl.net.newNamedNode(i, fmt.Sprintf("x%d", i), c, cl.t0); err == nil {
						extra = append(extra, nv)
						seedN := cl.nodes[0]
						go nv.m.Join([]string{fmt.Sprintf("%s/%s", seedN.name, seedN.tr.addr)})
					}
				}
				cl.net.mu.Lock()
				cl.net.loss = loss
				cl.net.dropAccusations = ownEvidence
				cl.net.mu.Unlock()
			}
		}
		allDone := len(crashTime) == ncrash
		for _, s := range cl.live() {
			s.sampleScore()
			mem := map[string]bool{}
			for _, x := range s.members() {
				mem[x] = true
			}
			for _, cn := range cl.nodes {
				if cn == s {
					continue
				}
				if mem[cn.name] {
					known[s.name][cn.name] = true
					delete(dropAt[s.name], cn.name) // listed again: detection restarts
				} else if known[s.name][cn.name] && cn.crashed {
					if _, ok := dropAt[s.name][cn.name]; !ok {
						dropAt[s.name][cn.name] = now
					}
				}
				if cn.crashed && known[s.name][cn.name] && mem[cn.name] {
					allDone = false
				}
			}
		}
		if allDone && now > lastCrash+5*time.Second {
			break
		}
	}
	// results per (survivor, crashed member it knew)
	var res []string
	for _, s := range cl.live() {
		s.mu.Lock()
		for cname, ct := range crashTime {
			if !known[s.name][cname] {
				continue
			}
			// reference instant: the crash, or the survivor's last join/update event for the member if later
			ref := ct
			leaveSeen := 0
			for _, e := range s.events {
				if e.name != cname {
					continue
				}
				if (e.kind == "join" || e.kind == "update") && e.at > ref {
					ref = e.at
				}
				// the subscriber's last word on the member must be a leave; it may predate the crash when
				// the survivor had already (falsely, under the injected faults) declared the member dead
				if e.kind == "leave" {
					leaveSeen = 1
				} else if e.kind == "join" {
					leaveSeen = 0
				}
			}
			d, dropped := dropAt[s.name][cname]
			lat := int64(-1)
			if dropped {
				lat = (d - ref).Milliseconds()
				if lat < 0 {
					lat = 0
				}
			}
			res = append(res, fmt.Sprintf("%s:%s:%d:%d:%d", s.name, cname, lat, leaveSeen, s.maxScore))
		}
		s.mu.Unlock()
	}
	inv := "enc"
	if !enc {
		inv = mon.verdict(cl.nodes)
	}
	for _, x := range extra {
		x.m.Shutdown()
	}
	cl.shutdownAll()
	rs := "-"
	if len(res) > 0 {
		rs = strings.Join(res, ",")
	}
	emit("C03 sim id=%s n=%d indirect=%d tcp=%d enc=%d loss=%d own=%d pushpull=%d crashes=%d probems=%d suspmaxms=%d awaremax=%d horizonms=%d inv=%s claims=%d res=%s",
		id, nn, c.indirect, b2i(c.tcpPings), b2i(enc), loss, b2i(ownEvidence), c.pushPull.Milliseconds()/1000, ncrash,
		c.probeInterval.Milliseconds(), suspMax.Milliseconds(), c.awareMax, horizon.Milliseconds(), inv, mon.total, rs)
}

func TestC03(t *testing.T) {
	runSel(t, "C03", 340)
	n := envInt("VERIF_N", 600)
	if thorough() {
		n = envInt("VERIF_N", 40000)
	}
	forCases(n, 31, "c", func(i int, r *rng, id string) {
		synctest.Test(t, func(t *testing.T) { c03Cursor(r, id) })
	})
	forCases(n/6, 32, "s", func(i int, r *rng, id string) {
		bubble(t, "C03", id, func() { c03Crash(r, id) })
	})
	// node-level histories around one member's suspicion (stale and current claims, timer expiry): a
	// running suspicion ends only by refutation, by a current dead claim, or by its own expiry
	forCases(envInt("VERIF_N", 2000)/4, 33, "h", func(i int, r *rng, id string) { timerHistory("C03", r, id) })
}
