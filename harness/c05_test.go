package harness

import (
	"fmt"
	"sort"
	"strings"
	"testing"
	"testing/synctest"
	"time"

	ml "github.com/hashicorp/memberlist"
)

// C05: faults (loss, duplication, delay, partitions, crashes, same-address restarts, leaves) for a
// while, then a perfect network; the final state is classified.
func c05Heal(r *rng, id string) {
	nn := 3 + r.intn(8)
	c := defaultSimCfg()
	c.pushPull = []time.Duration{5 * time.Second, 10 * time.Second}[r.intn(2)]
	c.gossipDead = []time.Duration{10 * time.Second, 30 * time.Second}[r.intn(2)]
	c.indirect = []int{1, 3}[r.intn(2)]
	// one run in six: a probe timeout above the probe interval (a lowered interval, the default timeout kept)
	if r.chance(1, 6) {
		c.probeTimeout = c.probeInterval + 100*time.Millisecond
	}
	cl, err := newSimCluster(r, nn, c)
	if err != nil {
		emit("C05 sim id=%s err=create", id)
		return
	}
	cl.net.latMin, cl.net.latMax = 0, 30*time.Millisecond
	mon := cl.startMonitor()
	cl.joinAll(200 * time.Millisecond)
	time.Sleep(5 * time.Second)
	departed := map[string]bool{}
	var restarts []string
	if r.chance(1, 3) {
		// a process is replaced in place, quickly enough for nobody to notice the gap: same name, same address,
		// new metadata, its incarnation counter back at the value its peers still hold for it
		idx := 1 + r.intn(nn-1)
		v := cl.nodes[idx]
		v.crash()
		time.Sleep(time.Duration(20+r.intn(150)) * time.Millisecond)
		cl.net.mu.Lock()
		delete(cl.net.nodes, v.tr.addr)
		cl.net.mu.Unlock()
		if nv, err := cl.net.newNode(idx, c, cl.t0); err == nil {
			nv.meta = []byte(fmt.Sprintf("replaced-%d-%s", r.intn(1000), nv.name))
			nv.m.UpdateNode(0)
			cl.nodes[idx] = nv
			seedN := cl.nodes[0]
			go nv.m.Join([]string{fmt.Sprintf("%s/%s", seedN.name, seedN.tr.addr)})
			restarts = append(restarts, nv.name)
			mon.mu.Lock()
			mon.skip[nv.name] = true
			mon.mu.Unlock()
		}
		time.Sleep(2 * time.Second)
	}
	// ---- fault phase ----
	faultEnd := cl.since() + time.Duration(10+r.intn(30))*time.Second
	cl.net.mu.Lock()
	cl.net.loss = []int{0, 10, 30, 50}[r.intn(4)]
	cl.net.dup = []int{0, 10}[r.intn(2)]
	cl.net.latMax = []time.Duration{30 * time.Millisecond, 400 * time.Millisecond, 2 * time.Second}[r.intn(3)]
	cl.net.mu.Unlock()
	type part struct {
		from, to time.Duration
		side     map[string]bool
	}
	var parts []part
	for k := r.intn(3); k > 0; k-- {
		st := cl.since() + time.Duration(r.intn(20))*time.Second
		p := part{from: st, to: st + time.Duration(1+r.intn(13))*time.Second, side: map[string]bool{}}
		for _, nd := range cl.nodes {
			if r.chance(1, 2) {
				p.side[nd.tr.addr] = true
			}
		}
		parts = append(parts, p)
	}
	setPartitions := func(now time.Duration, healed bool) {
		cl.net.mu.Lock()
		cl.net.blocked = map[[2]string]bool{}
		if !healed {
			for _, p := range parts {
				if now >= p.from && now < p.to && now < faultEnd {
					for _, a := range cl.nodes {
						for _, b := range cl.nodes {
							if p.side[a.tr.addr] != p.side[b.tr.addr] {
								cl.net.blocked[[2]string{a.tr.addr, b.tr.addr}] = true
							}
						}
					}
				}
			}
		}
		cl.net.mu.Unlock()
	}
	for cl.since() < faultEnd {
		time.Sleep(250 * time.Millisecond)
		setPartitions(cl.since(), false)
		if r.chance(1, 40) {
			live := cl.live()
			if len(live) > 2 {
				v := live[1+r.intn(len(live)-1)]
				switch r.intn(3) {
				case 0:
					if r.chance(1, 2) {
						// a frozen process: its listening socket still completes connections, nothing ever answers
						v.hang()
					} else {
						v.crash()
					}
					departed[v.name] = true
				case 1:
					v.left = true
					v.m.Leave(time.Second)
					v.crash()
					departed[v.name] = true
				case 2:
					// crash and restart at the same address with a fresh (lower) incarnation
					idx := -1
					for i, x := range cl.nodes {
						if x == v {
							idx = i
						}
					}
					if r.chance(1, 3) {
						// a long-lived process: the cluster remembers a high incarnation of this name, the
						// restarted process starts again at 1 and has to jump over it in one refutation
						ml.VerifSetIncarnation(v.m, uint32(150+r.intn(400)))
						v.m.UpdateNode(time.Second)
						time.Sleep(time.Second)
					}
					v.crash()
					newName := r.chance(1, 3)
					if !(newName && r.chance(2, 3)) {
						// (a replacement instance under a new name often comes up at once, before anybody has
						// noticed that the old one is gone)
						time.Sleep(time.Duration(500+r.intn(3000)) * time.Millisecond)
					}
					cl.net.mu.Lock()
					delete(cl.net.nodes, v.tr.addr)
					cl.net.mu.Unlock()
					var nv *simNode
					var err error
					if newName {
						// the address is taken over by a member with a new name: the old name is gone for good
						nv, err = cl.net.newNamedNode(idx, fmt.Sprintf("x%d", idx), c, cl.t0)
						departed[v.name] = true
					} else {
						nv, err = cl.net.newNode(idx, c, cl.t0)
					}
					if err == nil {
						nv.meta = []byte(fmt.Sprintf("restarted-%d-%s", r.intn(1000), nv.name))
						nv.m.UpdateNode(0) // no peers yet: returns at once; the restarted process advertises new metadata
						cl.nodes[idx] = nv
						seedN := cl.live()[0]
						go nv.m.Join([]string{fmt.Sprintf("%s/%s", seedN.name, seedN.tr.addr)})
						restarts = append(restarts, nv.name)
						mon.mu.Lock()
						mon.skip[nv.name] = true // restarted process: counter reset, outside the restart-free theorems
						mon.skip[v.name] = true
						mon.mu.Unlock()
					}
				}
			}
		}
		if r.chance(1, 30) {
			live := cl.live()
			nd := live[r.intn(len(live))]
			nd.meta = []byte(fmt.Sprintf("m%d-%s", r.intn(1000), nd.name))
			go nd.m.UpdateNode(time.Second)
		}
	}
	// ---- heal ----
	cl.net.mu.Lock()
	cl.net.loss, cl.net.dup, cl.net.latMin, cl.net.latMax = 0, 0, 0, 20*time.Millisecond
	cl.net.mu.Unlock()
	setPartitions(cl.since(), true)
	live := cl.live()
	// connectivity of the listing graph at heal time
	adj := map[string]map[string]bool{}
	liveSet := map[string]bool{}
	for _, nd := range live {
		liveSet[nd.name] = true
		adj[nd.name] = map[string]bool{}
	}
	for _, nd := range live {
		for _, x := range nd.members() {
			if liveSet[x] && x != nd.name {
				adj[nd.name][x] = true
				adj[x][nd.name] = true
			}
		}
	}
	seen := map[string]bool{}
	var stack []string
	if len(live) > 0 {
		stack = []string{live[0].name}
	}
	for len(stack) > 0 {
		x := stack[len(stack)-1]
		stack = stack[:len(stack)-1]
		if seen[x] {
			continue
		}
		seen[x] = true
		for y := range adj[x] {
			stack = append(stack, y)
		}
	}
	connected := len(seen) == len(live)
	healAt := cl.since()
	// settle
	horizon := healAt + 10*c.pushPull + 200*time.Second
	settled := time.Duration(-1)
	isConverged := func() bool {
		var want []string
		for _, nd := range live {
			want = append(want, nd.name)
		}
		sort.Strings(want)
		w := strings.Join(want, "+")
		for _, nd := range live {
			if strings.Join(nd.members(), "+") != w {
				return false
			}
			for _, m := range nd.m.Members() {
				for _, o := range live {
					if o.name == m.Name && string(m.Meta) != string(o.meta) {
						return false
					}
				}
			}
		}
		return true
	}
	for cl.since() < horizon {
		time.Sleep(time.Second)
		if isConverged() {
			settled = cl.since() - healAt
			break
		}
	}
	// classification of the final state
	class := "converged"
	detail := "-"
	if settled < 0 {
		// groups of mutual listing
		group := map[string]string{}
		for _, nd := range live {
			group[nd.name] = strings.Join(nd.members(), "+")
		}
		split := true
		for _, nd := range live {
			mem := nd.members()
			for _, x := range mem {
				if !liveSet[x] {
					split = false
					detail = fmt.Sprintf("lists-departed:%s@%s", x, nd.name)
				} else if group[x] != group[nd.name] {
					split = false
					detail = fmt.Sprintf("views-differ-inside-group:%s,%s", nd.name, x)
				}
			}
			// metadata inside the group must be the owner's latest
			for _, m := range nd.m.Members() {
				for _, o := range live {
					if o.name == m.Name && string(m.Meta) != string(o.meta) {
						split = false
						detail = fmt.Sprintf("stale-metadata:%s@%s", m.Name, nd.name)
					}
				}
			}
			if s := ml.VerifSnapshotState(nd.m); true {
				for _, rec := range s.Nodes {
					if rec.State == ml.StateSuspect {
						split = false
						detail = fmt.Sprintf("accusation-sticks:%s@%s", rec.Name, nd.name)
					}
				}
			}
		}
		if split {
			class = "stable-split"
			var gs []string
			seenG := map[string]bool{}
			for _, g := range group {
				if !seenG[g] {
					seenG[g] = true
					gs = append(gs, g)
				}
			}
			sort.Strings(gs)
			detail = strings.Join(gs, "|")
		} else {
			class = "not-converged"
		}
	}
	inv := mon.verdict(cl.nodes)
	cl.shutdownAll()
	emit("C05 sim id=%s n=%d live=%d departed=%d restarts=%d connected=%d healat=%d settledms=%d inv=%s claims=%d class=%s detail=%s",
		id, nn, len(live), len(departed), len(restarts), b2i(connected), healAt.Milliseconds(), settled.Milliseconds(), inv, mon.total, class, detail)
}

func TestC05(t *testing.T) {
	forCases(6, 55, "x", func(i int, r *rng, id string) { lockStir("C05", r, id) })
	// target selection for gossip, push/pull and probes at the same time: nobody may drop out of the list
	forCases(12, 56, "y", func(i int, r *rng, id string) { stirLeg("C05", r, id) })
	forCases(200, 57, "c", func(i int, r *rng, id string) {
		synctest.Test(t, func(t *testing.T) { cursorLeg("C05", r, id) })
	})
	n := envInt("VERIF_N", 80)
	if thorough() {
		n = envInt("VERIF_N", 3000)
	}
	forCases(n, 51, "s", func(i int, r *rng, id string) {
		bubble(t, "C05", id, func() { c05Heal(r, id) })
	})
	// the anti-entropy interval scaling (pushPullScale) against its integer model
	forCases(6, 53, "sc", func(i int, r *rng, id string) { scaleLeg("C05", "pushpull", r, id, 60) })
	forCases(1, 54, "sp", func(i int, r *rng, id string) { scalePoints("C05", "pushpull", id) })
}
