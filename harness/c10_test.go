package harness

// C10: operation sequences on the real TransmitLimitedQueue, snapshot after every call.

import (
	"fmt"
	"sort"
	"strings"
	"testing"
	"unsafe"

	ml "github.com/hashicorp/memberlist"
)

type qb struct {
	uid      int
	kind     byte // n, u, p
	name     string
	subj     int
	msg      []byte
	finished *[]int
}

func (b *qb) Message() []byte { return b.msg }
func (b *qb) Finished()       { *b.finished = append(*b.finished, b.uid) }

type qbNamed struct{ qb }

func (b *qbNamed) Name() string { return b.name }
func (b *qbNamed) Invalidates(o ml.Broadcast) bool {
	nb, ok := o.(*qbNamed)
	return ok && nb.name == b.name
}

type qbUnique struct{ qb }

func (b *qbUnique) UniqueBroadcast()              {}
func (b *qbUnique) Invalidates(ml.Broadcast) bool { return false }

type qbPlain struct{ qb }

func (b *qbPlain) Invalidates(o ml.Broadcast) bool {
	pb, ok := o.(*qbPlain)
	return ok && pb.subj == b.subj
}

func baseOf(b ml.Broadcast) *qb {
	switch x := b.(type) {
	case *qbNamed:
		return &x.qb
	case *qbUnique:
		return &x.qb
	case *qbPlain:
		return &x.qb
	}
	return nil
}

func ints(xs []int) string {
	if len(xs) == 0 {
		return "-"
	}
	s := make([]string, len(xs))
	for i, x := range xs {
		s[i] = fmt.Sprint(x)
	}
	return strings.Join(s, ",")
}

func qSeq(r *rng, id string, nops int) {
	mult := []int{0, 1, 2, 3, 4, 8}[r.intn(6)]
	numNodes := []int{0, 1, 5, 9, 10, 99, 100, 1000}[r.intn(8)]
	q := &ml.TransmitLimitedQueue{RetransmitMult: mult, NumNodes: func() int { return numNodes }}
	var fin []int
	nextUid := 0
	byPtr := map[unsafe.Pointer]int{}
	names := []string{"", "a", "b", "c"}
	var sb strings.Builder
	fmt.Fprintf(&sb, "C10 seq id=%s mult=%d ops=", id, mult)
	lens := []int{0, 1, 2, 5, 5, 5, 7, 18, 40}
	for i := 0; i < nops; i++ {
		if i > 0 {
			sb.WriteByte(';')
		}
		fin = fin[:0]
		var desc, out string
		out = "-"
		panicked := ""
		func() {
			defer func() {
				if rec := recover(); rec != nil {
					panicked = "panic"
				}
			}()
			k := r.intn(20)
			switch {
			case k < 9:
				l := lens[r.intn(len(lens))]
				base := qb{uid: nextUid, msg: make([]byte, l), finished: &fin}
				if l > 0 {
					base.msg[0] = byte(nextUid)
				}
				var b ml.Broadcast
				switch r.intn(5) {
				case 0, 1:
					base.kind, base.name = 'n', names[r.intn(len(names))]
					nb := &qbNamed{base}
					b = nb
					if l > 0 {
						byPtr[unsafe.Pointer(&nb.msg[0])] = nb.uid
					}
				case 2:
					base.kind = 'u'
					ub := &qbUnique{base}
					b = ub
					if l > 0 {
						byPtr[unsafe.Pointer(&ub.msg[0])] = ub.uid
					}
				default:
					base.kind, base.subj = 'p', r.intn(3)
					pb := &qbPlain{base}
					b = pb
					if l > 0 {
						byPtr[unsafe.Pointer(&pb.msg[0])] = pb.uid
					}
				}
				nm := base.name
				if nm == "" {
					nm = "-"
				}
				desc = fmt.Sprintf("q:%c:%s:%d:%d", base.kind, nm, base.subj, l)
				nextUid++
				q.QueueBroadcast(b)
			case k < 16:
				if r.chance(1, 3) {
					numNodes = []int{0, 1, 5, 9, 10, 99, 100, 1000}[r.intn(8)]
				}
				overhead := []int{0, 1, 2, 3, 3, 2, -1}[r.intn(7)]
				limit := []int{0, 1, 7, 8, 14, 21, 40, 80, 1400, -5}[r.intn(10)]
				tl := ml.VerifRetransmitLimit(mult, numNodes)
				desc = fmt.Sprintf("g:%d:%d:%d", overhead, limit, tl)
				msgs := q.GetBroadcasts(overhead, limit)
				var os []string
				for _, m := range msgs {
					if len(m) == 0 {
						os = append(os, "z")
					} else if u, ok := byPtr[unsafe.Pointer(&m[0])]; ok {
						os = append(os, fmt.Sprint(u))
					} else {
						os = append(os, "?")
					}
				}
				if len(os) > 0 {
					out = strings.Join(os, ",")
				}
			case k < 18:
				mr := []int{0, 1, 2, 3, 5, -1}[r.intn(6)]
				desc = fmt.Sprintf("p:%d", mr)
				q.Prune(mr)
			case k < 19:
				desc = "r"
				q.Reset()
			default:
				desc = "n"
				out = fmt.Sprint(q.NumQueued())
			}
		}()
		items, idGen, tm := ml.VerifQueueSnapshot(q)
		tmok := 1
		var tree []string
		sort.Slice(items, func(a, b int) bool { return items[a].ID < items[b].ID })
		namedCount := 0
		for _, it := range items {
			b := baseOf(it.B)
			if b == nil {
				tree = append(tree, "?")
				continue
			}
			tree = append(tree, fmt.Sprintf("%d.%d.%d.%d", it.Transmits, it.MsgLen, it.ID, b.uid))
			if it.Name != "" {
				namedCount++
				if tm[it.Name] != it.ID {
					tmok = 0
				}
			}
		}
		if namedCount != len(tm) {
			tmok = 0
		}
		treeS := "-"
		if len(tree) > 0 {
			treeS = strings.Join(tree, ",")
		}
		f := append([]int(nil), fin...)
		sort.Ints(f)
		fmt.Fprintf(&sb, "%s/%s/%s/%s/%d/%d/%s", desc, ints(f), out, treeS, idGen, tmok, panicked)
		if panicked != "" {
			break
		}
	}
	emit("%s", sb.String())
}

func TestC10(t *testing.T) {
	n := envInt("VERIF_N", 3000)
	if thorough() {
		n = envInt("VERIF_N", 300000)
	}
	forCases(n, 10, "q", func(i int, r *rng, id string) { qSeq(r, id, 1+r.intn(40)) })
	// retransmitLimit over whole ranges of the cluster size and at the powers of ten / two
	forCases(6, 12, "sc", func(i int, r *rng, id string) { scaleLeg("C10", "retransmit", r, id, 60) })
	forCases(1, 13, "sp", func(i int, r *rng, id string) { scalePoints("C10", "retransmit", id) })
	// retransmitLimit against mult * (number of decimal digits of n)
	forCases(1, 11, "rl", func(i int, r *rng, id string) {
		ns := []int{0, 1, 2, 8, 9, 10, 11, 98, 99, 100, 101, 999, 1000, 1001, 9999, 10000, 99999, 100000, 999999, 1000000, 9999999, 10000000}
		if thorough() {
			for k := 0; k < 20000; k++ {
				ns = append(ns, r.intn(20000000))
			}
		}
		for _, n := range ns {
			for _, m := range []int{0, 1, 3, 4, 8} {
				emit("C10 rl id=%s.%d.%d mult=%d n=%d val=%d", id, m, n, m, n, ml.VerifRetransmitLimit(m, n))
			}
		}
	})
}
