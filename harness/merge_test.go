package harness

// Step harness for the merge rules (aliveNode / suspectNode / deadNode / mergeState / timers /
// reaping / UpdateNode / Leave) on a real Memberlist with a no-op transport.
// Serves C01 C02 C07 C08 C18 (and the node-level legs of C06 C09).

import (
	"bytes"
	"fmt"
	"io"
	"log"
	"net"
	"sort"
	"strings"
	"sync"
	"time"

	ml "github.com/hashicorp/memberlist"
)

// ---- no-op transport ----

type nullTransport struct {
	pktCh    chan *ml.Packet
	streamCh chan net.Conn
	mu       sync.Mutex
	sent     [][]byte
	sentTo   []string
	dialer   func(addr string) (net.Conn, error)
	failTo   string // writes to this address fail with a local error
	failOp   bool   // ... with a udp write *net.OpError instead (an error that blames the remote side)
	keepRefs bool   // also keep the very slices handed in (an in-process transport such as the package's MockTransport delivers them as they are)
	refs     [][]byte
}

func newNullTransport() *nullTransport {
	return &nullTransport{pktCh: make(chan *ml.Packet), streamCh: make(chan net.Conn)}
}
func (t *nullTransport) FinalAdvertiseAddr(ip string, port int) (net.IP, int, error) {
	return net.ParseIP(ip).To4(), port, nil
}
func (t *nullTransport) WriteTo(b []byte, addr string) (time.Time, error) {
	if t.failTo != "" && addr == t.failTo {
		if t.failOp {
			return time.Time{}, &net.OpError{Op: "write", Net: "udp", Err: fmt.Errorf("connection refused")}
		}
		return time.Time{}, fmt.Errorf("write udp: network is unreachable")
	}
	t.mu.Lock()
	t.sent = append(t.sent, append([]byte(nil), b...))
	t.sentTo = append(t.sentTo, addr)
	if t.keepRefs {
		t.refs = append(t.refs, b)
	}
	t.mu.Unlock()
	return time.Now(), nil
}
func (t *nullTransport) PacketCh() <-chan *ml.Packet { return t.pktCh }
func (t *nullTransport) DialTimeout(addr string, timeout time.Duration) (net.Conn, error) {
	if t.dialer != nil {
		return t.dialer(addr)
	}
	return nil, fmt.Errorf("null transport: no streams")
}
func (t *nullTransport) StreamCh() <-chan net.Conn { return t.streamCh }
func (t *nullTransport) Shutdown() error           { return nil }

// ---- recording delegates ----

type recorder struct {
	mu         sync.Mutex
	outs       []string
	pool       *addrPool
	veto       bool // alive delegate verdict for the current call
	meta       []byte
	userMerges int // Delegate.MergeRemoteState calls
}

func (r *recorder) add(s string) { r.mu.Lock(); r.outs = append(r.outs, s); r.mu.Unlock() }
func (r *recorder) take() []string {
	r.mu.Lock()
	defer r.mu.Unlock()
	o := r.outs
	r.outs = nil
	return o
}
func (r *recorder) NotifyJoin(n *ml.Node) {
	r.add(fmt.Sprintf("j/%s/%d/%d/%d", n.Name, r.pool.addrCode(n.Addr), r.pool.portCode(n.Port), mdCode(n.Meta)))
}
func (r *recorder) NotifyLeave(n *ml.Node) { r.add("l/" + n.Name) }
func (r *recorder) NotifyUpdate(n *ml.Node) {
	r.add(fmt.Sprintf("u/%s/%d", n.Name, mdCode(n.Meta)))
}
func (r *recorder) NotifyConflict(existing, other *ml.Node) {
	r.add(fmt.Sprintf("c/%s/%d/%d", other.Name, r.pool.addrCode(other.Addr), r.pool.portCode(other.Port)))
}

type aliveDel struct{ r *recorder }

func (a *aliveDel) NotifyAlive(n *ml.Node) error {
	if a.r.veto {
		return fmt.Errorf("vetoed")
	}
	return nil
}

// node-meta delegate (UpdateNode)
type metaDel struct{ r *recorder }

func (d *metaDel) NodeMeta(limit int) []byte                  { return d.r.meta }
func (d *metaDel) NotifyMsg([]byte)                           {}
func (d *metaDel) GetBroadcasts(overhead, limit int) [][]byte { return nil }
func (d *metaDel) LocalState(join bool) []byte                { return nil }
func (d *metaDel) MergeRemoteState(buf []byte, join bool)     { d.r.userMerges++ }

// ---- codes ----

type addrPool struct{ addrs [][]byte }

func newAddrPool() *addrPool {
	return &addrPool{addrs: [][]byte{
		{10, 0, 0, 9},    // 0: self
		{10, 0, 0, 1},    // 1: A
		{10, 0, 0, 2},    // 2: B
		{192, 168, 0, 9}, // 3: X, outside the allow-list
		{0, 0, 0, 0, 0, 0, 0, 0, 0, 0, 0xff, 0xff, 10, 0, 0, 1}, // 4: A as IPv4-mapped IPv6 (different bytes)
		{10, 0, 1}, // 5: malformed length
		{0x20, 0x01, 0x0d, 0xb8, 0, 0, 0, 0, 0, 0, 0, 0, 0, 0, 0, 1}, // 6: IPv6 outside
		{0xfd, 0, 0, 0, 0, 0, 0, 0, 0, 0, 0, 0, 0, 0, 0, 7},          // 7: IPv6 inside fd00::/8
		nil,             // 8: absent address (nil, as decoded from a message without Addr)
		{10, 0, 32, 1},  // 9: next to 10.0.0.0/22 (inside a /18)
		{10, 0, 3, 200}, // 10: inside 10.0.0.0/22
		{128, 0, 0, 1},  // 11: outside 0.0.0.0/1
		{100, 0, 0, 1},  // 12: inside 0.0.0.0/1
	}}
}
func (p *addrPool) addrCode(a []byte) int {
	for i, x := range p.addrs {
		if bytes.Equal(x, a) {
			return i
		}
	}
	return 99
}
func (p *addrPool) portCode(port uint16) int { return int(port) - 7946 }

var mdPool = [][]byte{nil, []byte("m1"), []byte("m2")}

func mdCode(m []byte) int {
	for i, x := range mdPool {
		if bytes.Equal(x, m) {
			return i
		}
	}
	return 99
}

var vsnPool = [][]uint8{
	{1, 5, 2, 0, 0, 0}, // 0 default
	{1, 5, 3, 0, 0, 0}, // 1 other pcur
	{},                 // 2 absent
	{0, 5, 2, 0, 0, 0}, // 3 bad pmin
	{1, 5, 2},          // 4 short (3)
	{3, 2, 2, 0, 0, 0}, // 5 pmin>pmax
	{1, 5, 2, 0, 1, 1}, // 6 other delegate versions
}

func vsnStr(v []uint8) string {
	if len(v) == 0 {
		return "-"
	}
	s := make([]string, len(v))
	for i, x := range v {
		s[i] = fmt.Sprint(x)
	}
	return strings.Join(s, ".")
}

var stLetter = map[ml.NodeStateType]string{ml.StateAlive: "a", ml.StateSuspect: "s", ml.StateDead: "d", ml.StateLeft: "l"}

// ---- the node under test ----

type mnode struct {
	m      *ml.Memberlist
	rec    *recorder
	pool   *addrPool
	nets   []net.IPNet
	timers []*ml.VerifSuspicion // every suspicion timer ever created, in creation order
	seen   map[*ml.VerifSuspicion]bool
	known  map[string]bool // timer identity by (node,start)
	tr     *nullTransport
	mdel   *mergeDelT
}

// allow-lists used when mcfg.allowlist is set (index mcfg.alist); the verdicts the model is given are
// computed with net.IPNet.Contains, independently of Config.IPAllowed
var allowLists = [][]string{
	{"10.0.0.0/8", "fd00::/8"},
	{"10.0.0.0/22"},
	{"0.0.0.0/1", "::/0"},
	{"10.0.0.0/13", "fd00::/9", "192.168.0.0/29"},
	{"10.0.0.0/30", "10.0.0.8/29"},
}

// altNets rewrites IPv4 networks as net.IPNet{IP: 16-byte form, Mask: 4-byte mask} - what
// net.IPNet{IP: net.ParseIP("10.0.0.0"), Mask: net.CIDRMask(8, 32)} builds; Contains treats both forms alike.
func altNets(nets []net.IPNet) []net.IPNet {
	out := make([]net.IPNet, 0, len(nets))
	for _, n := range nets {
		if ip4 := n.IP.To4(); ip4 != nil && len(n.Mask) == 4 {
			out = append(out, net.IPNet{IP: ip4.To16(), Mask: n.Mask})
		} else {
			out = append(out, n)
		}
	}
	return out
}

type mcfg struct {
	alist     int
	altRep    bool // allow-list networks handed over in the other valid in-memory form (see altNets)
	allowlist bool
	reclaim   bool
	aliveDel  bool
	awareMax  int
	suspMult  int
	name      string // default "S"
	advertise string // default 10.0.0.9
	mergeDel  bool
}

// mergeDel is a merge delegate whose verdict the harness sets per call.
type mergeDelT struct {
	veto  bool
	calls int
}

func (d *mergeDelT) NotifyMerge(peers []*ml.Node) error {
	d.calls++
	if d.veto {
		return fmt.Errorf("merge vetoed")
	}
	return nil
}

func (c mcfg) String() string {
	b := func(x bool) int {
		if x {
			return 1
		}
		return 0
	}
	return fmt.Sprintf("%d.%d.%d.%d.%d", b(c.allowlist), b(c.reclaim), b(c.aliveDel), c.awareMax, c.suspMult)
}

func newMnode(c mcfg) (*mnode, error) {
	pool := newAddrPool()
	rec := &recorder{pool: pool}
	conf := ml.DefaultLANConfig()
	conf.Name = "S"
	if c.name != "" {
		conf.Name = c.name
	}
	tr := newNullTransport()
	conf.Transport = tr
	conf.AdvertiseAddr = "10.0.0.9"
	if c.advertise != "" {
		conf.AdvertiseAddr = c.advertise
	}
	conf.AdvertisePort = 7946
	conf.BindPort = 7946
	conf.ProbeInterval = time.Hour
	conf.ProbeTimeout = time.Minute
	conf.GossipInterval = 0
	conf.PushPullInterval = 0
	conf.GossipToTheDeadTime = 30 * time.Minute
	conf.Events = rec
	conf.Conflict = rec
	conf.Delegate = &metaDel{rec}
	conf.AwarenessMaxMultiplier = c.awareMax
	conf.SuspicionMult = c.suspMult
	conf.Logger = log.New(io.Discard, "", 0)
	if c.aliveDel {
		conf.Alive = &aliveDel{rec}
	}
	if c.reclaim {
		conf.DeadNodeReclaimTime = time.Hour
	}
	mn := &mnode{rec: rec, pool: pool, known: map[string]bool{}, tr: tr}
	if c.mergeDel {
		mn.mdel = &mergeDelT{}
		conf.Merge = mn.mdel
	}
	if c.allowlist {
		nets, err := ml.ParseCIDRs(allowLists[c.alist%len(allowLists)])
		if err != nil {
			return nil, err
		}
		conf.CIDRsAllowed = nets
		if c.altRep {
			conf.CIDRsAllowed = altNets(nets)
		}
		mn.nets = nets
	}
	m, err := ml.Create(conf)
	if err != nil {
		return nil, err
	}
	mn.m = m
	rec.take()
	ml.VerifResetBroadcasts(m)
	return mn, nil
}

func (mn *mnode) allowed(addr []byte) bool {
	if len(mn.nets) == 0 {
		return true
	}
	for _, n := range mn.nets {
		if n.Contains(net.IP(addr)) {
			return true
		}
	}
	return false
}

// allowedCodes lists the address codes of the pool that the node's allow-list admits (oracle)
func (mn *mnode) allowedCodes() string {
	var out []string
	for i, a := range mn.pool.addrs {
		if mn.allowed(a) {
			out = append(out, fmt.Sprint(i))
		}
	}
	if len(out) == 0 {
		return "-"
	}
	return strings.Join(out, ".")
}

// observe renders the post-state and the effects of the last operation.
func (mn *mnode) observe(opStart time.Time) string {
	s := ml.VerifSnapshotState(mn.m)
	recs := make([]string, 0, len(s.Nodes))
	for _, n := range s.Nodes {
		age := "f"
		if time.Since(n.StateChange) > 20*time.Minute {
			age = "o"
		}
		v := make([]uint8, 6)
		copy(v, n.Vsn[:])
		recs = append(recs, fmt.Sprintf("%s/%d/%s/%d/%d/%d/%s/%s", n.Name, n.Incarnation, stLetter[n.State],
			mn.pool.addrCode(n.Addr), mn.pool.portCode(n.Port), mdCode(n.Meta), vsnStr(v), age))
	}
	var tnames []string
	for name := range s.Timers {
		tnames = append(tnames, name)
	}
	sort.Strings(tnames)
	var ts []string
	for _, name := range tnames {
		t := s.Timers[name]
		key := fmt.Sprintf("%s@%d", name, t.Start.UnixNano())
		if !mn.known[key] {
			mn.known[key] = true
			mn.timers = append(mn.timers, t.Handle)
		}
		sort.Strings(t.Confirmers)
		kk := t.K
		if kk < 0 {
			kk = 0 // SuspicionMult 1: k = -1 behaves like 0 (minimum timeout, no confirmation counted)
		}
		ts = append(ts, fmt.Sprintf("%s/%d/%d/%s", name, kk, t.N, strings.Join(t.Confirmers, "+")))
	}
	outs := mn.rec.take()
	bs := ml.VerifBroadcasts(mn.m)
	var bl []string
	for _, b := range bs {
		kind := map[uint8]string{3: "s", 4: "a", 5: "d"}[b.Type]
		nt := 0
		if b.Notify {
			nt = 1
		}
		q := b.QName
		if q != b.Node { // refutations are queued under the address string
			q = "@" + b.Node
		}
		from := b.From
		if from == "" {
			from = "-"
		}
		line := fmt.Sprintf("b/%s/%s/%s/%d/%s/%d", q, kind, b.Node, b.Incarnation, from, nt)
		if kind == "a" { // content of the alive claim handed to the network
			line += fmt.Sprintf("/%d/%d/%d/%s", mn.pool.addrCode(b.Addr), mn.pool.portCode(b.Port), mdCode(b.Meta), vsnStr(b.Vsn))
		}
		bl = append(bl, line)
	}
	sort.Strings(bl)
	outs = append(outs, bl...)
	ml.VerifResetBroadcasts(mn.m)
	j := func(x []string) string {
		if len(x) == 0 {
			return "-"
		}
		return strings.Join(x, ",")
	}
	hl := 0
	if s.HasLeft {
		hl = 1
	}
	return fmt.Sprintf("%s|%s|%d|%d|%d|%d|%s", j(recs), j(ts), s.Incarnation, s.Score, s.NumNodes, hl, j(outs))
}

// ---- operations ----

type mop struct {
	kind       byte // A S D M F R U L G
	node, from string
	inc        uint32
	addr, port int
	md, vsn    int
	boot, veto bool
	viaPkt     bool // alive delivered through handleAlive instead of a direct aliveNode call
	portless   bool // ... with Port = 0 on the wire when the claimed port is the configured one
	entries    []mentry
	timer      int
	premeta    int // > 0: the application changes its metadata (delegate NodeMeta) just before this op, without calling UpdateNode
}

type mentry struct {
	name       string
	addr, port int
	md, vsn    int
	inc        uint32
	st         ml.NodeStateType
	veto       bool
}

func b2i(b bool) int {
	if b {
		return 1
	}
	return 0
}

// apply runs the operation on the real node and returns its protocol token.
func (mn *mnode) apply(o mop) (tok string, panicked bool) {
	defer func() {
		if r := recover(); r != nil {
			panicked = true
		}
	}()
	p := mn.pool
	if o.premeta > 0 {
		mn.rec.meta = mdPool[o.premeta-1]
	}
	switch o.kind {
	case 'A':
		mn.rec.veto = o.veto
		al := mn.allowed(p.addrs[o.addr])
		tok = fmt.Sprintf("A:%s:%d:%d:%d:%d:%s:%d:%d:%d", o.node, o.inc, o.addr, o.port, o.md, vsnStr(vsnPool[o.vsn]), b2i(o.boot), b2i(al), b2i(!o.veto))
		if o.viaPkt && !o.boot {
			// through handleAlive, as packetHandler delivers a queued alive message; a message without a
			// port (Port = 0 on the wire) means "the configured port"
			port := uint16(7946 + o.port)
			if o.port == 0 && o.portless {
				port = 0
			}
			body := ml.VerifEncodeAlive(o.inc, o.node, p.addrs[o.addr], port, mdPool[o.md], vsnPool[o.vsn])
			if ml.VerifHandleQueued(mn.m, 4, body[1:], &net.UDPAddr{IP: net.IPv4(10, 0, 0, 1), Port: 7946}) {
				panic("handleAlive panicked")
			}
		} else {
			ml.VerifAliveNode(mn.m, o.inc, o.node, p.addrs[o.addr], uint16(7946+o.port), mdPool[o.md], vsnPool[o.vsn], nil, o.boot)
		}
	case 'S':
		tok = fmt.Sprintf("S:%s:%d:%s", o.node, o.inc, o.from)
		ml.VerifSuspectNode(mn.m, o.inc, o.node, o.from)
	case 'D':
		tok = fmt.Sprintf("D:%s:%d:%s", o.node, o.inc, o.from)
		ml.VerifDeadNode(mn.m, o.inc, o.node, o.from)
	case 'M':
		var es []string
		var rs []ml.VerifPushNodeState
		// one verdict for the whole merge (the delegate has no per-entry state in the harness)
		mn.rec.veto = o.veto
		for _, e := range o.entries {
			al := mn.allowed(p.addrs[e.addr])
			es = append(es, fmt.Sprintf("%s~%d~%d~%d~%d~%s~%s~%d~%d", e.name, e.addr, e.port, e.md, e.inc, stLetter[e.st], vsnStr(vsnPool[e.vsn]), b2i(al), b2i(!o.veto)))
			rs = append(rs, ml.VerifPushNodeState{Name: e.name, Addr: p.addrs[e.addr], Port: uint16(7946 + e.port), Meta: mdPool[e.md], Incarnation: e.inc, State: e.st, Vsn: vsnPool[e.vsn]})
		}
		tok = "M:" + strings.Join(es, ",")
		if len(es) == 0 {
			tok = "M:-"
		}
		ml.VerifMergeState(mn.m, rs)
	case 'F':
		tok = fmt.Sprintf("F:%d", o.timer)
		if o.timer < len(mn.timers) {
			mn.timers[o.timer].Fire()
		}
	case 'R':
		tok = "R"
		ml.VerifResetNodes(mn.m)
	case 'U':
		mn.rec.meta = mdPool[o.md]
		mn.rec.veto = false
		tok = fmt.Sprintf("U:%d", o.md)
		done := make(chan error, 1)
		go func() { defer panicsAsNil(done); done <- mn.m.UpdateNode(time.Millisecond) }()
		select {
		case err := <-done:
			if err == errPanicked {
				tok += "!blocked"
			}
		case <-time.After(5 * time.Second):
			tok += "!blocked"
		}
	case 'L':
		tok = "L"
		done := make(chan error, 1)
		go func() { defer panicsAsNil(done); done <- mn.m.Leave(time.Millisecond) }()
		select {
		case err := <-done:
			if err == errPanicked {
				tok += "!blocked"
			}
		case <-time.After(5 * time.Second):
			tok += "!blocked"
		}
	case 'G':
		tok = "G:" + o.node
		ml.VerifSetStateChange(mn.m, o.node, time.Now().Add(-2*time.Hour))
	}
	return tok, false
}

// panicsAsNil: an API call that panics on its own goroutine would take the whole harness down; it
// is reported like a call that never came back (the op token gets "!blocked").
var errPanicked = fmt.Errorf("panicked")

func panicsAsNil(done chan error) {
	if rec := recover(); rec != nil {
		done <- errPanicked
	}
}

// runHistory creates a node, applies ops, and emits one line.
func runHistory(prop, id string, c mcfg, ops []mop) {
	mn, err := newMnode(c)
	if err != nil {
		emit("%s hist id=%s cfg=%s err=%s", prop, id, c, strings.ReplaceAll(err.Error(), " ", "_"))
		return
	}
	defer mn.m.Shutdown()
	var sb strings.Builder
	countOff := 0 // steps after which NumMembers() differs from len(Members())
	fmt.Fprintf(&sb, "%s hist id=%s cfg=%s allowed=%s init=%s ops=", prop, id, c, mn.allowedCodes(), mn.observe(time.Now()))
	for i, o := range ops {
		if i > 0 {
			sb.WriteByte(';')
		}
		if o.kind == 'F' && o.timer >= len(mn.timers) {
			if len(mn.timers) == 0 {
				o = mop{kind: 'R'}
			} else {
				o.timer = o.timer % len(mn.timers)
			}
		}
		start := time.Now()
		tok, pan := mn.apply(o)
		if pan {
			fmt.Fprintf(&sb, "%s>panic", tok)
			break
		}
		fmt.Fprintf(&sb, "%s>%s", tok, mn.observe(start))
		if mn.m.NumMembers() != len(mn.m.Members()) {
			countOff++
		}
	}
	if countOff > 0 {
		fmt.Fprintf(&sb, " nummembers=%d", countOff)
	}
	emit("%s", sb.String())
}

// ---- generators ----

var otherNames = []string{"n1", "n2", "n3"}

func genInc(r *rng, hi bool) uint32 {
	if hi && r.chance(1, 12) {
		return []uint32{4294967294, 4294967295, 1000, 2147483648}[r.intn(4)]
	}
	return uint32(r.intn(6))
}

// randomOp draws one operation; selfBias raises the share of claims about the local node.
func randomOp(r *rng, c mcfg, selfBias int, ntimers *int) mop {
	name := otherNames[r.intn(len(otherNames))]
	if r.chance(selfBias, 10) {
		name = "S"
	}
	from := append([]string{"S"}, otherNames...)[r.intn(4)]
	if r.chance(1, 4) {
		from = name // self-signed (leave)
	}
	addr := []int{1, 1, 1, 2, 2, 3, 4, 5, 6, 7, 8}[r.intn(11)]
	if name == "S" && r.chance(3, 4) {
		addr = 0
	}
	k := r.intn(100)
	switch {
	case k < 34:
		return mop{kind: 'A', node: name, inc: genInc(r, true), addr: addr, port: b2i(r.chance(1, 8)), md: r.intn(3),
			vsn: []int{0, 0, 0, 0, 1, 2, 3, 4, 5, 6}[r.intn(10)], boot: false, veto: c.aliveDel && r.chance(1, 6),
			viaPkt: r.chance(1, 4), portless: r.chance(1, 2)}
	case k < 50:
		pm := 0
		if name == "S" && r.chance(1, 3) {
			pm = 1 + r.intn(len(mdPool))
		}
		return mop{kind: 'S', node: name, inc: genInc(r, true), from: from, premeta: pm}
	case k < 66:
		pm := 0
		if name == "S" && r.chance(1, 3) {
			pm = 1 + r.intn(len(mdPool))
		}
		return mop{kind: 'D', node: name, inc: genInc(r, true), from: from, premeta: pm}
	case k < 78:
		n := r.intn(4)
		var es []mentry
		for i := 0; i < n; i++ {
			en := append([]string{"S"}, otherNames...)[r.intn(4)]
			ea := []int{1, 1, 2, 3, 4}[r.intn(5)]
			if en == "S" {
				ea = 0
			}
			es = append(es, mentry{name: en, addr: ea, port: 0, md: r.intn(3), vsn: []int{0, 0, 0, 1, 2}[r.intn(5)],
				inc: genInc(r, false), st: []ml.NodeStateType{ml.StateAlive, ml.StateAlive, ml.StateSuspect, ml.StateDead, ml.StateLeft}[r.intn(5)]})
		}
		return mop{kind: 'M', entries: es, veto: c.aliveDel && r.chance(1, 8)}
	case k < 84:
		return mop{kind: 'F', timer: r.intn(4)}
	case k < 88:
		return mop{kind: 'R'}
	case k < 92:
		return mop{kind: 'U', md: r.intn(3)}
	case k < 94:
		return mop{kind: 'L'}
	default:
		return mop{kind: 'G', node: name}
	}
}

func randomCfg(r *rng) mcfg {
	return mcfg{allowlist: r.chance(1, 3), reclaim: r.chance(1, 2), aliveDel: r.chance(1, 4),
		awareMax: []int{8, 8, 1, 2}[r.intn(4)], suspMult: []int{4, 4, 2, 3, 6, 1}[r.intn(6)]}
}

func randomHistory(prop string, r *rng, id string, selfBias, maxOps int) {
	c := randomCfg(r)
	n := 1 + r.intn(maxOps)
	ops := make([]mop, 0, n)
	nt := 0
	for i := 0; i < n; i++ {
		ops = append(ops, randomOp(r, c, selfBias, &nt))
	}
	runHistory(prop, id, c, ops)
}

// tableCase decodes index i into: a prior record for n1 (built by a real history) and one claim.
// Returns false when i is past the end of the table.
func tableCase(prop string, i int, seedv uint64, target string) bool {
	dims := []int{5, 3, 2, 2, 2, 8, 5, 4, 3, 3, 2} // prior, priorInc, aged, reclaim, allowlist, claim, claimInc, claimAddr, md, vsn, timerFull
	idx := make([]int, len(dims))
	x := i
	for d := range dims {
		idx[d] = x % dims[d]
		x /= dims[d]
	}
	if x > 0 {
		return false
	}
	prior, pinc, aged, reclaim, allow, claim, cinc, caddr, md, vsn, tfull := idx[0], uint32(idx[1]+1), idx[2] == 1, idx[3] == 1, idx[4] == 1, idx[5], uint32(idx[6]), idx[7], idx[8], idx[9], idx[10] == 1
	if aged && prior < 2 { // ageing matters for suspect/dead/left priors
		return true
	}
	if tfull && prior != 2 {
		return true
	}
	c := mcfg{allowlist: allow, reclaim: reclaim, awareMax: 8, suspMult: 4}
	selfAddr := 1
	if target == "S" {
		selfAddr = 0
	}
	var ops []mop
	// some bystanders so that suspicion expects confirmations (k>0)
	ops = append(ops, mop{kind: 'A', node: "n2", inc: 1, addr: 2}, mop{kind: 'A', node: "n3", inc: 1, addr: 7})
	if target != "S" {
		switch prior {
		case 0: // absent
		case 1:
			ops = append(ops, mop{kind: 'A', node: target, inc: pinc, addr: selfAddr, md: 1})
		case 2:
			ops = append(ops, mop{kind: 'A', node: target, inc: pinc, addr: selfAddr, md: 1}, mop{kind: 'S', node: target, inc: pinc, from: "n2"})
			if tfull {
				ops = append(ops, mop{kind: 'S', node: target, inc: pinc, from: "n3"}, mop{kind: 'S', node: target, inc: pinc, from: "S"})
			}
		case 3:
			ops = append(ops, mop{kind: 'A', node: target, inc: pinc, addr: selfAddr, md: 1}, mop{kind: 'D', node: target, inc: pinc, from: "n2"})
		case 4:
			ops = append(ops, mop{kind: 'A', node: target, inc: pinc, addr: selfAddr, md: 1}, mop{kind: 'D', node: target, inc: pinc, from: target})
		}
		if aged {
			ops = append(ops, mop{kind: 'G', node: target})
		}
	} else {
		// prior for self: incarnation raised by refutations; prior 4 = left
		for k := uint32(1); k < pinc; k++ {
			ops = append(ops, mop{kind: 'U', md: 1})
		}
		if prior == 4 {
			ops = append(ops, mop{kind: 'L'})
		}
	}
	ca := []int{selfAddr, 2, 3, 4}[caddr]
	vs := []int{0, 1, 2}[vsn]
	switch claim {
	case 0:
		ops = append(ops, mop{kind: 'A', node: target, inc: cinc, addr: ca, md: md, vsn: vs})
	case 1:
		ops = append(ops, mop{kind: 'S', node: target, inc: cinc, from: "n2"})
	case 2:
		ops = append(ops, mop{kind: 'S', node: target, inc: cinc, from: "n3"})
	case 3:
		ops = append(ops, mop{kind: 'D', node: target, inc: cinc, from: "n2"})
	case 4:
		ops = append(ops, mop{kind: 'D', node: target, inc: cinc, from: target})
	default: // push/pull entry in each of the four states
		st := []ml.NodeStateType{ml.StateAlive, ml.StateSuspect, ml.StateDead, ml.StateLeft}[claim-5+0]
		ops = append(ops, mop{kind: 'M', entries: []mentry{{name: target, addr: ca, md: md, vsn: vs, inc: cinc, st: st}}})
	}
	// dimension pruning: md/vsn/addr only matter for alive-type claims
	if claim != 0 && claim != 5 && (md != 0 || vsn != 0 || caddr != 0) {
		return true
	}
	runHistory(prop, fmt.Sprintf("%d:t%s%d", seedv, target, i), c, ops)
	return true
}

func runTable(prop, target string) {
	only := envOnly()
	sh, nsh := shard()
	if only != "" {
		pre := fmt.Sprintf("%d:t%s", seed(), target)
		if strings.HasPrefix(only, pre) {
			var i int
			if _, err := fmt.Sscanf(only[len(pre):], "%d", &i); err == nil {
				tableCase(prop, i, seed(), target)
			}
		}
		return
	}
	for i := 0; ; i++ {
		if i%nsh != sh {
			if i > 2000000 {
				return
			}
			continue
		}
		if !tableCase(prop, i, seed(), target) {
			return
		}
	}
}
