package harness

import (
	"testing"
	"testing/synctest"
	"time"

	ml "github.com/hashicorp/memberlist"
)

// C01: exhaustive prior x claim table for a non-local member plus random histories.
func TestC01(t *testing.T) {
	runTable("C01", "n1")
	n := envInt("VERIF_N", 1500)
	if thorough() {
		n = envInt("VERIF_N", 60000)
	}
	forCases(n, 101, "h", func(i int, r *rng, id string) { randomHistory("C01", r, id, 1, 30) })
	forCases(n/10, 103, "n", func(i int, r *rng, id string) { rrsLeg("C01", r, id) })
	forCases(n/30+4, 104, "p", func(i int, r *rng, id string) {
		synctest.Test(t, func(t *testing.T) { c01Probe(r, id) })
	})
}

// c01Probe: the failure detector's own verdict is a claim about the incarnation it pinged. A probe of
// T at incarnation N goes unanswered; while it is outstanding a newer alive claim (N+1) about T is
// accepted. The verdict that follows is about N and must not override the newer knowledge.
func c01Probe(r *rng, id string) {
	n, err := newC19(r.intn(2), "off", 8)
	if err != nil {
		return
	}
	m := n.m
	inc := uint32(1 + r.intn(5))
	vsn := []uint8{1, 5, 2, 0, 0, 0}
	ml.VerifAliveNode(m, inc, "T", []byte{10, 0, 0, 1}, 7946, nil, vsn, nil, false)
	bump := r.chance(2, 3)
	done := make(chan struct{})
	go func() { ml.VerifProbe(m); close(done) }()
	synctest.Wait()
	time.Sleep(time.Duration(1+r.intn(400)) * time.Millisecond)
	if bump {
		ml.VerifAliveNode(m, inc+1, "T", []byte{10, 0, 0, 1}, 7946, []byte("newer"), vsn, nil, false)
	}
	<-done
	time.Sleep(100 * time.Millisecond)
	synctest.Wait()
	st, got := "?", uint32(0)
	for _, nd := range ml.VerifSnapshotState(m).Nodes {
		if nd.Name == "T" {
			st, got = stLetter[nd.State], nd.Incarnation
		}
	}
	emit("C01 probe id=%s bump=%d inc=%d state=%s got=%d", id, b2i(bump), inc, st, got)
	m.Shutdown()
}
