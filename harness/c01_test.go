package harness

import "testing"

// C01: exhaustive prior x claim table for a non-local member plus random histories.
func TestC01(t *testing.T) {
	runTable("C01", "n1")
	n := envInt("VERIF_N", 1500)
	if thorough() {
		n = envInt("VERIF_N", 60000)
	}
	forCases(n, 101, "h", func(i int, r *rng, id string) { randomHistory("C01", r, id, 1, 30) })
}
