package harness

import (
	"fmt"
	"net"
	"runtime"
	"strings"
	"sync"
	"sync/atomic"
	"testing"
	"time"

	ml "github.com/hashicorp/memberlist"
)

// C20: public API calls in any order and from several goroutines against a node of a small live
// cluster, at every lifecycle stage (joined, leaving, left, left-and-reaped, shut down).
func c20Api(r *rng, id string) {
	c := defaultSimCfg()
	c.gossipDead = 5 * time.Second // so that the own departed record ages out quickly
	c.pushPull = 5 * time.Second
	cl, err := newSimCluster(r, 3, c)
	if err != nil {
		emit("C20 api id=%s err=create", id)
		return
	}
	cl.net.latMin, cl.net.latMax = 0, 20*time.Millisecond
	if r.chance(1, 3) {
		cl.net.loss = 20
	}
	cl.joinAll(100 * time.Millisecond)
	time.Sleep(3 * time.Second)
	sut := cl.nodes[1]
	m := sut.m
	var mu sync.Mutex
	var log []string
	var bads []string
	shutdownDone := false
	leftCalled := false
	var leaveBusy atomic.Bool
	call := func(name string, limit time.Duration, f func() string) {
		// run f with a watchdog: panics and calls that do not return within their limit are findings
		done := make(chan string, 1)
		start := time.Now()
		go func() {
			defer func() {
				if rec := recover(); rec != nil {
					done <- "PANIC:" + strings.ReplaceAll(strings.SplitN(fmt.Sprint(rec), "\n", 2)[0], " ", "_")
				}
			}()
			done <- f()
		}()
		var res string
		select {
		case res = <-done:
		case <-time.After(limit + 5*time.Second):
			res = "BLOCKED"
		}
		took := time.Since(start)
		mu.Lock()
		log = append(log, name+"="+res)
		if strings.HasPrefix(res, "PANIC") || res == "BLOCKED" {
			bads = append(bads, fmt.Sprintf("%s:%s", name, res))
		} else if limit > 0 && took > limit+time.Second {
			bads = append(bads, fmt.Sprintf("%s:overran-timeout:%dms>%dms", name, took.Milliseconds(), limit.Milliseconds()))
		}
		mu.Unlock()
	}
	errS := func(err error) string {
		if err != nil {
			return "err"
		}
		return "ok"
	}
	peer := func() *ml.Node {
		for _, n := range m.Members() {
			if n.Name != sut.name {
				return n
			}
		}
		return &ml.Node{Name: "n0", Addr: net.ParseIP("10.0.0.1").To4(), Port: 7946}
	}
	doRandom := func(rr *rng) {
		switch rr.intn(12) {
		case 0:
			call("Members", 0, func() string { return fmt.Sprint(len(m.Members())) })
		case 1:
			call("NumMembers", 0, func() string { return fmt.Sprint(m.NumMembers()) })
		case 2:
			call("LocalNode", 0, func() string { return m.LocalNode().Name })
		case 3:
			t := []time.Duration{0, 200 * time.Millisecond, 2 * time.Second}[rr.intn(3)]
			if t == 0 && (leftCalled || shutdownDone) {
				t = time.Second
			}
			call("UpdateNode", t+30*time.Second*time.Duration(b2i(t == 0)), func() string { return errS(m.UpdateNode(t)) })
		case 4:
			call("SendBestEffort", 0, func() string { return errS(m.SendBestEffort(peer(), []byte("x"))) })
		case 5:
			call("SendReliable", 3*time.Second, func() string { return errS(m.SendReliable(peer(), []byte("x"))) })
		case 6:
			call("Ping", time.Second, func() string {
				_, err := m.Ping("n0", &net.UDPAddr{IP: net.ParseIP("10.0.0.1"), Port: 7946})
				return errS(err)
			})
		case 7:
			call("GetHealthScore", 0, func() string { return fmt.Sprint(m.GetHealthScore()) })
		case 8:
			call("Join", 5*time.Second, func() string { _, err := m.Join([]string{"n0/10.0.0.1:7946"}); return errS(err) })
		case 9:
			// two overlapping Leave calls would park one of them on leaveLock (a mutex wait is not a
			// durable block, so virtual time could not advance): at most one Leave in flight
			if !shutdownDone && leaveBusy.CompareAndSwap(false, true) {
				t := []time.Duration{100 * time.Millisecond, time.Second}[rr.intn(2)]
				mu.Lock()
				leftCalled = true
				mu.Unlock()
				call("Leave", t, func() string { return errS(m.Leave(t)) })
				leaveBusy.Store(false)
			}
		case 10:
			call("ProtocolVersion", 0, func() string { return fmt.Sprint(m.ProtocolVersion()) })
		default:
			call("SendToAddress", 0, func() string {
				return errS(m.SendToAddress(ml.Address{Addr: "10.0.0.1:7946", Name: "n0"}, []byte("y")))
			})
		}
	}
	// one sequential round of calls per lifecycle stage, compared with the stage table of the model
	var table []string
	probeStage := func(stage string) {
		one := func(name string, limit time.Duration, f func() string) {
			before := len(log)
			call(name, limit, f)
			mu.Lock()
			if len(log) > before {
				table = append(table, stage+":"+log[len(log)-1])
			}
			mu.Unlock()
		}
		one("Members", 0, func() string { return fmt.Sprint(len(m.Members())) })
		one("NumMembers", 0, func() string { return fmt.Sprint(m.NumMembers()) })
		one("LocalNode", 0, func() string { return m.LocalNode().Name })
		one("GetHealthScore", 0, func() string { return fmt.Sprint(m.GetHealthScore()) })
		one("ProtocolVersion", 0, func() string { return fmt.Sprint(m.ProtocolVersion()) })
		one("UpdateNode", time.Second, func() string { return errS(m.UpdateNode(500 * time.Millisecond)) })
		one("SendBestEffort", 0, func() string { return errS(m.SendBestEffort(peer(), []byte("x"))) })
	}
	stages := []string{"joined"}
	plan := r.intn(4)
	hungPeer := r.chance(1, 3)
	if hungPeer {
		// a peer freezes: it keeps its listening socket but answers nothing (TCP fallback pings to it
		// are accepted and never acknowledged)
		stages = append(stages, "hung-peer")
		if r.chance(1, 2) {
			stages[len(stages)-1] = "stalled-peer"
			cl.nodes[2].tr.stalled.Store(true) // ... and does not even drain what is written to it
		}
		cl.nodes[2].hang()
	}
	// stage 1: joined - concurrent callers
	par := func(k, calls int) {
		var wg sync.WaitGroup
		for g := 0; g < k; g++ {
			wg.Add(1)
			rr := newRng(r.next(), uint64(g))
			go func() {
				defer wg.Done()
				for i := 0; i < calls; i++ {
					doRandom(rr)
					time.Sleep(time.Duration(rr.intn(300)) * time.Millisecond)
				}
			}()
		}
		wg.Wait()
	}
	par(1+r.intn(3), 6)
	probeStage("joined")
	if plan >= 1 && !hungPeer && r.chance(1, 3) {
		// a peer's dead claim about this node is handled after Leave has set its flag and before Leave's
		// own departure is processed: the accusation then carries the departure, and Leave must still
		// return once it has been handed out
		stages = append(stages, "leave-vs-accusation")
		leftCalled = true
		var lres string
		var lwg sync.WaitGroup
		inc := ml.VerifSnapshotState(m).Incarnation
		ml.VerifWithNodeLock(m, func() {
			lwg.Add(2)
			go func() { defer lwg.Done(); ml.VerifDeadNode(m, inc, sut.name, "n0") }()
			for i := 0; i < 2000; i++ {
				runtime.Gosched()
			}
			go func() {
				defer lwg.Done()
				call("Leave", 3*time.Second, func() string { lres = errS(m.Leave(3 * time.Second)); return lres })
			}()
			for i := 0; i < 2000; i++ {
				runtime.Gosched()
			}
		})
		lwg.Wait()
		if lres == "err" {
			mu.Lock()
			bads = append(bads, "Leave-timed-out-although-its-departure-was-carried-by-a-concurrent-accusation")
			mu.Unlock()
		}
	}
	if plan >= 1 && r.chance(1, 2) {
		// Leave runs to completion while UpdateNode(0) is inside the delegate's NodeMeta callback
		stages = append(stages, "leave-during-update")
		leftCalled = true
		sut.onNodeMeta = func() { m.Leave(time.Second) }
		call("UpdateNode", 30*time.Second, func() string { return errS(m.UpdateNode(0)) })
	}
	if plan >= 1 {
		stages = append(stages, "left")
		leftCalled = true
		call("Leave", 2*time.Second, func() string { return errS(m.Leave(2 * time.Second)) })
		call("Leave", 2*time.Second, func() string { return errS(m.Leave(2 * time.Second)) }) // idempotent
		probeStage("left")
		par(1+r.intn(2), 5)
	}
	if plan >= 2 {
		stages = append(stages, "left-and-reaped")
		time.Sleep(c.gossipDead + 6*time.Second) // the own departed record ages out and a probe pass wraps
		probeStage("leftReaped")
		par(1+r.intn(2), 6)
	}
	// final stage: shutdown, twice and concurrently with other calls
	stages = append(stages, "shutdown")
	var wg sync.WaitGroup
	for g := 0; g < 2; g++ {
		wg.Add(1)
		go func() {
			defer wg.Done()
			call("Shutdown", 2*time.Second, func() string { return errS(m.Shutdown()) })
		}()
	}
	rr := newRng(r.next(), 99)
	wg.Add(1)
	go func() {
		defer wg.Done()
		for i := 0; i < 4; i++ {
			// Leave after Shutdown is documented to panic: not called here
			k := rr.intn(9)
			if k == 8 {
				k = 0
			}
			rr2 := newRng(uint64(k), 1)
			_ = rr2
			switch k {
			case 3:
				call("UpdateNode", 2*time.Second, func() string { return errS(m.UpdateNode(time.Second)) })
			default:
				call("Members", 0, func() string { return fmt.Sprint(len(m.Members())) })
				call("LocalNode", 0, func() string { return m.LocalNode().Name })
				call("SendBestEffort", 0, func() string { return errS(m.SendBestEffort(peer(), []byte("x"))) })
			}
		}
	}()
	wg.Wait()
	shutdownDone = true
	sut.crashed = true
	sentAtShutdown := sut.tr.afterShutdownWrites.Load()
	// after Shutdown returned: the query API still works, nothing reaches the network
	call("Members", 0, func() string { return fmt.Sprint(len(m.Members())) })
	call("NumMembers", 0, func() string { return fmt.Sprint(m.NumMembers()) })
	call("GetHealthScore", 0, func() string { return fmt.Sprint(m.GetHealthScore()) })
	call("Shutdown", time.Second, func() string { return errS(m.Shutdown()) })
	if leftCalled {
		probeStage("leftShutdown")
	} else {
		probeStage("shutdown")
	}
	time.Sleep(time.Duration(c.awareMax)*c.probeInterval + 3*time.Second)
	late := sut.tr.afterShutdownWrites.Load() - sentAtShutdown
	// late > 0 only counts attempts refused by the closed transport; attempts long after Shutdown mean
	// background activity did not stop
	time.Sleep(20 * time.Second)
	veryLate := sut.tr.afterShutdownWrites.Load() - sentAtShutdown - late
	if veryLate > 0 {
		bads = append(bads, fmt.Sprintf("background-activity-after-shutdown:%d-send-attempts", veryLate))
	}
	if k := sut.tr.pendingHungReads.Load(); k > 0 {
		bads = append(bads, fmt.Sprintf("background-activity-after-shutdown:%d-stream-reads-still-pending-on-a-hung-peer", k))
	}
	for _, nd := range cl.nodes {
		if nd.overlap.Load() > 0 {
			bads = append(bads, "concurrent-callbacks@"+nd.name)
		}
	}
	cl.shutdownAll()
	bs := "-"
	if len(bads) > 0 {
		if len(bads) > 5 {
			bads = bads[:5]
		}
		bs = strings.Join(bads, ",")
	}
	tb := "-"
	if len(table) > 0 {
		tb = strings.Join(table, ",")
	}
	emit("C20 api id=%s stages=%s calls=%d loss=%d table=%s bad=%s", id, strings.Join(stages, "+"), len(log), cl.net.loss, tb, bs)
}

// c20Denied: a node whose own address its configuration refuses (CIDRsAllowed without it) is created
// successfully but is not a member of itself (upstream tests rely on that); the API must not panic
// or block there either, before and after Leave and Shutdown.
func c20Denied(r *rng, id string) {
	alist := [][]string{{"192.168.0.0/16"}, {"10.0.0.0/30"}, {"fd00::/8"}, {"10.0.1.0/24", "172.16.0.0/12"}}[r.intn(4)]
	n, err := newCnode(ccfg{name: "S", cidrs: alist, altRep: r.chance(1, 2)})
	if err != nil {
		emit("C20 api id=%s stages=selfdenied-create-refused calls=10 loss=0 table=- bad=-", id)
		return
	}
	m := n.m
	var log, bads, table []string
	stage := "denied"
	call := func(name string, f func() string) {
		done := make(chan string, 1)
		go func() {
			defer func() {
				if rec := recover(); rec != nil {
					done <- "PANIC:" + strings.ReplaceAll(strings.SplitN(fmt.Sprint(rec), "\n", 2)[0], " ", "_")
				}
			}()
			done <- f()
		}()
		var res string
		select {
		case res = <-done:
		case <-time.After(5 * time.Second):
			res = "BLOCKED"
		}
		log = append(log, name+"="+res)
		table = append(table, stage+":"+name+"="+res)
		if strings.HasPrefix(res, "PANIC") || res == "BLOCKED" {
			bads = append(bads, fmt.Sprintf("self%s:%s:%s", stage, name, res))
		}
	}
	errS := func(err error) string {
		if err != nil {
			return "err"
		}
		return "ok"
	}
	peer := &ml.Node{Name: "n0", Addr: net.ParseIP("10.0.0.1").To4(), Port: 7946}
	probe := func(withLeave bool) {
		order := r.intn(3)
		for k := 0; k < 3; k++ {
			switch (k + order) % 3 {
			case 0:
				call("Members", func() string { return fmt.Sprint(len(m.Members())) })
				call("NumMembers", func() string { return fmt.Sprint(m.NumMembers()) })
				call("GetHealthScore", func() string { return fmt.Sprint(m.GetHealthScore()) })
				call("ProtocolVersion", func() string { return fmt.Sprint(m.ProtocolVersion()) })
			case 1:
				call("UpdateNode", func() string { return errS(m.UpdateNode(100 * time.Millisecond)) })
				call("SendBestEffort", func() string { return errS(m.SendBestEffort(peer, []byte("x"))) })
				call("Join", func() string { _, err := m.Join([]string{"n0/10.0.0.1:7946"}); return errS(err) })
			default:
				if withLeave {
					call("Leave", func() string { return errS(m.Leave(100 * time.Millisecond)) })
				}
			}
		}
		// last, so that any other finding of the case is listed before it
		call("LocalNode", func() string { return m.LocalNode().Name })
	}
	plan := r.intn(3)
	stages := "selfdenied"
	switch plan {
	case 0:
		probe(true)
	case 1:
		call("Leave", func() string { return errS(m.Leave(100 * time.Millisecond)) })
		stages += "+left"
		probe(true)
	default:
		call("Shutdown", func() string { return errS(m.Shutdown()) })
		stage = "deniedShutdown"
		stages += "+shutdown"
		probe(false)
	}
	call("Shutdown", func() string { return errS(m.Shutdown()) })
	// the membership lock is free afterwards (a call that panicked must not have kept it)
	call("NumMembers", func() string { return fmt.Sprint(m.NumMembers()) })
	bs := "-"
	if len(bads) > 0 {
		bs = strings.Join(bads, ",")
	}
	emit("C20 api id=%s stages=%s calls=%d loss=0 table=%s bad=%s", id, stages, len(log)+10, strings.Join(table, ","), bs)
}

// c20Alone: Leave on a node whose peers have all gone (left gracefully or declared dead) has nobody to tell:
// it returns nil at once, whatever its timeout (also 0 = wait for ever); with a live or suspected peer and
// nothing transmitted it waits for its timeout.
func c20Alone(r *rng, id string) {
	n, err := newCnode(ccfg{name: "S"})
	if err != nil {
		return
	}
	defer n.m.Shutdown()
	m := n.m
	vsn := []uint8{1, 5, 2, 0, 0, 0}
	peers := 1 + r.intn(4)
	gone := 0
	var states []string
	for i := 1; i <= peers; i++ {
		name := fmt.Sprintf("n%d", i)
		ml.VerifAliveNode(m, 1, name, []byte{10, 0, 0, byte(i)}, 7946, nil, vsn, nil, false)
		switch r.intn(4) {
		case 0:
			ml.VerifDeadNode(m, 1, name, name) // left
			states = append(states, "l")
			gone++
		case 1:
			ml.VerifDeadNode(m, 1, name, "S") // dead
			states = append(states, "d")
			gone++
		case 2:
			ml.VerifSuspectNode(m, 1, name, "S")
			states = append(states, "s")
		default:
			states = append(states, "a")
		}
	}
	timeout := []time.Duration{0, 300 * time.Millisecond, time.Second}[r.intn(3)]
	if gone < peers && timeout == 0 {
		timeout = 300 * time.Millisecond // somebody is there and nothing is transmitted here: a bounded wait
	}
	done := make(chan string, 1)
	start := time.Now()
	go func() {
		defer func() {
			if rec := recover(); rec != nil {
				done <- "panic"
			}
		}()
		if err := m.Leave(timeout); err != nil {
			done <- "err"
		} else {
			done <- "nil"
		}
	}()
	res := "blocked"
	select {
	case res = <-done:
	case <-time.After(timeout + 4*time.Second):
	}
	emit("C20 alone id=%s peers=%s timeoutms=%d res=%s tookms=%d", id, strings.Join(states, ""), timeout.Milliseconds(), res, time.Since(start).Milliseconds())
}

func TestC20(t *testing.T) {
	runSel(t, "C20", 240) // reaping never takes the node's own record (after Leave), selection never panics
	forCases(6, 203, "x", func(i int, r *rng, id string) { lockStir("C20", r, id) })
	n := envInt("VERIF_N", 120)
	if thorough() {
		n = envInt("VERIF_N", 6000)
	}
	forCases(n, 201, "a", func(i int, r *rng, id string) {
		bubble(t, "C20", id, func() { c20Api(r, id) })
	})
	forCases(n/4+6, 202, "d", func(i int, r *rng, id string) { c20Denied(r, id) })
	forCases(n/6+8, 204, "l", func(i int, r *rng, id string) { c20Alone(r, id) })
	// background activity ends within one probe interval: a probe round - direct ping, relays, stream fallback
	// against peers that answer, refuse, answer late or not at all - never outlasts its deadline
	c19Prop = "C20"
	forCases(2*n, 205, "p", func(i int, r *rng, id string) {
		probeBubble(t, id, func() { c19Probe(r, id) })
	})
	c19Prop = "C19"
	// peers that connect and say nothing, or stop in the middle of a header: every handler ends at its stream timeout
	c13StallProp = "C20"
	forCases(4, 206, "t", func(i int, r *rng, id string) { c13Stall(r, id) })
	c13StallProp = "C13"
}
