package harness

import (
	"fmt"
	"io"
	"log"
	"net"
	"runtime"
	"strings"
	"sync"
	"sync/atomic"
	"testing"
	"time"

	ml "github.com/hashicorp/memberlist"
)

// C02: accusations against the local node (table with target = self, then random histories
// in which most claims are about the local node, including far-ahead incarnations).
func TestC02(t *testing.T) {
	runTable("C02", "S")
	n := envInt("VERIF_N", 1500)
	if thorough() {
		n = envInt("VERIF_N", 60000)
	}
	forCases(n, 102, "h", func(i int, r *rng, id string) { randomHistory("C02", r, id, 7, 25) })
	forCases(n/3, 1021, "g", func(i int, r *rng, id string) { c02Gossip(r, id) })
	forCases(n/60+5, 1022, "x", func(i int, r *rng, id string) { c02Stir(r, id) })
}

// c02Gossip: accusations against the local node interleaved with ordinary gossip about peers of the same
// shape (equal name and address lengths), the broadcast queue left alone (never reset): the refutation
// carrying the node's final incarnation must actually be handed out for gossip.
func c02Gossip(r *rng, id string) {
	n, err := newCnode(ccfg{name: "n0"})
	if err != nil {
		return
	}
	defer n.m.Shutdown()
	m := n.m
	vsn := []uint8{1, 5, 2, 0, 0, 0}
	peerInc := map[string]uint32{}
	var handed [][]byte
	drain := func() int {
		msgs := ml.VerifGetBroadcasts(m, 2, 1400)
		handed = append(handed, msgs...)
		return len(msgs)
	}
	var ops []string
	k := 2 + r.intn(7)
	for i := 0; i < k; i++ {
		cur := ml.VerifSnapshotState(m).Incarnation
		switch r.intn(7) {
		case 0, 1:
			ml.VerifSuspectNode(m, cur+uint32(r.intn(2)), "n0", "n1")
			ops = append(ops, "s")
		case 2:
			ml.VerifDeadNode(m, cur+uint32(r.intn(3)), "n0", "n2")
			ops = append(ops, "d")
		case 3, 4, 5:
			p := []string{"n1", "n2", "n3"}[r.intn(3)]
			peerInc[p]++
			ml.VerifAliveNode(m, peerInc[p], p, []byte{10, 0, 0, byte(p[1] - '0')}, 7946, nil, vsn, nil, false)
			ops = append(ops, "a"+p[1:])
		default:
			drain()
			ops = append(ops, "g")
		}
	}
	for i := 0; i < 400 && drain() > 0; i++ {
	}
	final := ml.VerifSnapshotState(m).Incarnation
	found := 0
	for _, msg := range handed {
		if len(msg) > 1 && msg[0] == 4 {
			if c, ok := ml.VerifDecodeClaim(4, msg[1:]); ok && c.Node == "n0" && c.Incarnation == final {
				found = 1
			}
		}
	}
	emit("C02 gossip id=%s ops=%s final=%d handed=%d msgs=%d", id, strings.Join(ops, "."), final, found, len(handed))
}

// c02Stir: gossip, push/pull and probe ticks on three goroutines at once in a small cluster (they all pick
// their targets from the member list under a read lock): afterwards the node still lists itself and
// every member exactly once.
func c02Stir(r *rng, id string) { stirLeg("C02", r, id) }

func stirLeg(prop string, r *rng, id string) {
	n, err := newCnode(ccfg{name: "n0"})
	if err != nil {
		return
	}
	defer n.m.Shutdown()
	m := n.m
	vsn := []uint8{1, 5, 2, 0, 0, 0}
	peers := 1 + r.intn(6)
	for i := 1; i <= peers; i++ {
		ml.VerifAliveNode(m, 1, fmt.Sprintf("n%d", i), []byte{10, 0, 0, byte(i)}, 7946, nil, vsn, nil, false)
	}
	n.tr.dial = func(addr string) (net.Conn, error) { return nil, fmt.Errorf("refused") }
	var wg sync.WaitGroup
	stop := time.Now().Add(40 * time.Millisecond)
	for g := 0; g < 3; g++ {
		wg.Add(1)
		go func(g int) {
			defer wg.Done()
			defer func() { recover() }()
			for time.Now().Before(stop) {
				switch g {
				case 0:
					ml.VerifGossip(m)
				case 1:
					ml.VerifPushPull(m)
				default:
					ml.VerifGossip(m)
					m.Members()
				}
			}
		}(g)
	}
	wg.Wait()
	seen := map[string]int{}
	for _, nd := range ml.VerifSnapshotState(m).Nodes {
		seen[nd.Name]++
	}
	missing, dup := 0, 0
	for i := 0; i <= peers; i++ {
		c := seen[fmt.Sprintf("n%d", i)]
		if c == 0 {
			missing++
		}
		if c > 1 {
			dup++
		}
	}
	self := 0
	for _, nd := range m.Members() {
		if nd.Name == "n0" {
			self++
		}
	}
	n.tr.take()
	emit("%s stir id=%s peers=%d missing=%d dup=%d self=%d", prop, id, peers, missing, dup, self)
}

// C07: events against Members() over random histories of every operation kind.
func TestC07(t *testing.T) {
	n := envInt("VERIF_N", 4000)
	if thorough() {
		n = envInt("VERIF_N", 150000)
	}
	forCases(n, 107, "h", func(i int, r *rng, id string) { randomHistory("C07", r, id, 2, 40) })
	forCases(n/200+4, 1071, "c", func(i int, r *rng, id string) { c07Conc(r, id) })
	forCases(n/1500+2, 1072, "p", func(i int, r *rng, id string) { c07Poll(r, id) })
	forCases(n/20, 1073, "e", func(i int, r *rng, id string) { c07Chan(r, id) })
	// target selection on concurrent ticks must not disturb the listed set (no change of Members() without an event)
	forCases(12, 1074, "y", func(i int, r *rng, id string) { stirLeg("C07", r, id) })
	// the start-up window: a packet handled between the start of the listeners and the node recording itself
	forCases(12, 1075, "b", func(i int, r *rng, id string) { c07Boot(r, id) })
}

// C08: address conflicts / reclaim / departures: the non-local table plus random histories.
func TestC08(t *testing.T) {
	runSel(t, "C08", 840)
	runTable("C08", "n1")
	n := envInt("VERIF_N", 1500)
	if thorough() {
		n = envInt("VERIF_N", 60000)
	}
	forCases(n, 108, "h", func(i int, r *rng, id string) { randomHistory("C08", r, id, 2, 30) })
}

// c18Src: alive gossip over the packet path from allowed / disallowed source addresses with
// allowed / disallowed inner addresses, on a node with an allow-list.
func c18Src(r *rng, id string) {
	alist := allowLists[r.intn(len(allowLists))]
	nets, _ := ml.ParseCIDRs(alist)
	oracle := func(ip net.IP) bool {
		for _, n := range nets {
			if n.Contains(ip) {
				return true
			}
		}
		return false
	}
	if r.chance(1, 4) && c18Transport(r, id, alist, oracle) {
		return
	}
	rcv, err := newCnode(ccfg{name: "R", cidrs: alist, altRep: r.chance(1, 2)})
	if err != nil {
		emit("C18 src id=%s err=create", id)
		return
	}
	defer rcv.m.Shutdown()
	pool := newAddrPool()
	src := []string{"10.0.0.1:7946", "192.168.0.9:7946", "[fd00::7]:7946", "[2001:db8::1]:7946", "10.200.1.1:1", "10.0.32.1:7946", "128.0.0.1:7946", "100.0.0.1:7946"}[r.intn(8)]
	inner := []int{1, 2, 3, 4, 5, 6, 7, 8, 9, 10, 11, 12}[r.intn(12)]
	carrier := []string{"plain", "compound", "compressed"}[r.intn(3)]
	msg := ml.VerifEncodeAlive(uint32(1+r.intn(3)), "n1", pool.addrs[inner], 7946, nil, []uint8{1, 5, 2, 0, 0, 0})
	switch carrier {
	case "compound":
		msg = ml.VerifMakeCompoundMessage([][]byte{msg})
	case "compressed":
		c, _ := ml.VerifCompressPayload(msg)
		msg = c
	}
	ua, _ := net.ResolveUDPAddr("udp", src)
	pan := 0
	func() {
		defer func() {
			if rec := recover(); rec != nil {
				pan = 1
			}
		}()
		ml.VerifIngestPacket(rcv.m, msg, ua, time.Now())
		rcv.quiesce()
	}()
	listed, recorded := 0, 0
	for _, n := range rcv.m.Members() {
		if n.Name == "n1" {
			listed = 1
		}
	}
	for _, n := range ml.VerifSnapshotState(rcv.m).Nodes {
		if n.Name == "n1" {
			recorded = 1
		}
	}
	evs := rcv.ev.take()
	srcOK := b2i(oracle(ua.IP))
	innerOK := b2i(oracle(net.IP(pool.addrs[inner])))
	emit("C18 src id=%s src=%d inner=%d innerok=%d carrier=%s listed=%d recorded=%d events=%d panic=%d", id, srcOK, inner, innerOK, carrier, listed, recorded, len(evs), pan)
}

// c18Full: the handoff queue is full of alive gossip from allowed peers (the handler is busy) when an alive
// message arrives from a source outside the allow-list, naming an allowed address. Whatever the node does
// with its full queue, that message must not be taken for one from an allowed source.
func c18Full(r *rng, id string) {
	alist := []string{"10.0.0.0/8"}
	rcv, err := newCnode(ccfg{name: "R", cidrs: alist, altRep: r.chance(1, 2)})
	if err != nil {
		return
	}
	blk := make(chan struct{})
	rcv.del.block = blk
	vsn := []uint8{1, 5, 2, 0, 0, 0}
	ml.VerifIngestPacket(rcv.m, []byte{8, 1, 2}, fromAddr, time.Now()) // parks the handler in the delegate
	time.Sleep(20 * time.Millisecond)
	depth := 1024
	fill := depth + []int{0, 0, 5, -3}[r.intn(4)]
	for i := 0; i < fill; i++ {
		ml.VerifIngestPacket(rcv.m, ml.VerifEncodeAlive(1, fmt.Sprintf("f%d", i), []byte{10, 1, byte(i >> 8), byte(i)}, 7946, nil, vsn), fromAddr, time.Now())
	}
	outsider, _ := net.ResolveUDPAddr("udp", "192.168.0.9:7946")
	k := 1 + r.intn(3)
	for i := 0; i < k; i++ {
		ml.VerifIngestPacket(rcv.m, ml.VerifEncodeAlive(1, fmt.Sprintf("intruder%d", i), []byte{10, 9, 9, byte(i + 1)}, 7946, nil, vsn), outsider, time.Now())
	}
	queued := ml.VerifHandoffLen(rcv.m)
	close(blk)
	rcv.del.block = nil
	for i := 0; i < 4000 && ml.VerifHandoffLen(rcv.m) > 0; i++ {
		time.Sleep(time.Millisecond)
	}
	time.Sleep(20 * time.Millisecond)
	admitted := 0
	for _, nd := range ml.VerifSnapshotState(rcv.m).Nodes {
		if strings.HasPrefix(nd.Name, "intruder") {
			admitted++
		}
	}
	emit("C18 full id=%s fill=%d queued=%d outsiders=%d admitted=%d", id, fill, queued, k, admitted)
	rcv.m.Shutdown()
}

// c18Parse: ParseCIDRs on lists with well-formed and malformed entries: the documented result is the
// well-formed networks (in order) together with an error iff something was malformed - a caller that
// logs the error and goes on must not end up with an empty list, which means "allow everybody".
func c18Parse(r *rng, id string) {
	good := []string{"10.0.0.0/8", "192.168.0.0/29", "fd00::/8", " 10.0.0.0/22 ", "0.0.0.0/1", "::/0", "10.0.0.8/29"}
	badE := []string{"10.0.0.0/33", "garbage", "", "10.0.0.0", "fd00::/129", "10.0.0.0/8/8", "300.0.0.0/8"}
	n := r.intn(6)
	var list []string
	var want []string
	anyBad := false
	for i := 0; i < n; i++ {
		if r.chance(1, 3) {
			list = append(list, badE[r.intn(len(badE))])
			anyBad = true
		} else {
			g := good[r.intn(len(good))]
			list = append(list, g)
			_, nt, _ := net.ParseCIDR(strings.TrimSpace(g))
			want = append(want, nt.String())
		}
	}
	var in []string
	if n > 0 || r.chance(1, 2) {
		in = list
		if in == nil {
			in = []string{}
		}
	}
	nets, err := ml.ParseCIDRs(in)
	var got []string
	for _, nt := range nets {
		got = append(got, nt.String())
	}
	emit("C18 parse id=%s entries=%d malformed=%d want=%s got=%s err=%d", id, n, b2i(anyBad), strings.Join(want, "+"), strings.Join(got, "+"), b2i(err != nil))
}

// c18Transport: the same question asked of the stock network transport: a packet handed to
// NetTransport.IngestPacket (the ingestion entry point for packets that arrived over some other
// carrier) comes from the address the caller names, whatever the carrying connection's peer is.
func c18Transport(r *rng, id string, alist []string, oracle func(net.IP) bool) bool {
	nets, _ := ml.ParseCIDRs(alist)
	nt, err := ml.NewNetTransport(&ml.NetTransportConfig{BindAddrs: []string{"127.0.0.1"}, BindPort: 0, Logger: log.New(io.Discard, "", 0)})
	if err != nil {
		return false // no loopback sockets here: the caller falls back to the in-memory carrier
	}
	conf := ml.DefaultLANConfig()
	conf.Name = "R"
	conf.Transport = nt
	conf.AdvertiseAddr = "10.0.0.9"
	conf.AdvertisePort = 7946
	conf.BindPort = 7946
	conf.ProbeInterval = time.Hour
	conf.GossipInterval = 0
	conf.PushPullInterval = 0
	conf.CIDRsAllowed = nets
	conf.Logger = log.New(io.Discard, "", 0)
	m, err := ml.Create(conf)
	if err != nil {
		nt.Shutdown()
		return false
	}
	defer m.Shutdown()
	pool := newAddrPool()
	src := []string{"10.0.0.1:7946", "192.168.0.9:7946", "[fd00::7]:7946", "[2001:db8::1]:7946", "10.200.1.1:1", "10.0.32.1:7946", "128.0.0.1:7946", "100.0.0.1:7946"}[r.intn(8)]
	inner := []int{1, 2, 3, 9, 10, 11, 12}[r.intn(7)]
	ua, _ := net.ResolveUDPAddr("udp", src)
	vsn := []uint8{1, 5, 2, 0, 0, 0}
	pan := 0
	feed := func(msg []byte, from net.Addr) {
		defer func() {
			if rec := recover(); rec != nil {
				pan = 1
			}
		}()
		// the carrying connection's peer is fromAddr (10.0.0.1, inside every list)
		nt.IngestPacket(newFragConn(msg, nil), from, time.Now(), false)
	}
	has := func(name string) bool {
		for _, n := range ml.VerifSnapshotState(m).Nodes {
			if n.Name == name {
				return true
			}
		}
		return false
	}
	feed(ml.VerifEncodeAlive(uint32(1+r.intn(3)), "n1", pool.addrs[inner], 7946, nil, vsn), ua)
	// sentinel behind it on the same queue, from an address and about an address every list allows
	feed(ml.VerifEncodeAlive(1, "zz", pool.addrs[2], 7946, nil, vsn), fromAddr)
	for i := 0; i < 100000 && !has("zz"); i++ {
		time.Sleep(100 * time.Microsecond)
	}
	// the handoff queue hands out the newest message first: wait until it is empty, then push a second
	// sentinel through the (single) handler goroutine, behind whatever it was still working on
	for i := 0; i < 100000 && ml.VerifHandoffLen(m) > 0; i++ {
		time.Sleep(100 * time.Microsecond)
	}
	feed(ml.VerifEncodeAlive(1, "zy", pool.addrs[1], 7946, nil, vsn), fromAddr)
	for i := 0; i < 100000 && !has("zy"); i++ {
		time.Sleep(100 * time.Microsecond)
	}
	if !(has("zz") && has("zy")) && pan == 0 {
		return false // a sentinel never came through (an overloaded machine): no verdict from this carrier
	}
	listed := 0
	for _, n := range m.Members() {
		if n.Name == "n1" {
			listed = 1
		}
	}
	emit("C18 src id=%s src=%d inner=%d innerok=%d carrier=transport listed=%d recorded=%d events=%d panic=%d sentinel=%d", id,
		b2i(oracle(ua.IP)), inner, b2i(oracle(net.IP(pool.addrs[inner]))), listed, b2i(has("n1")), listed, pan, b2i(has("zz")))
	return true
}

// c07Chan: the package's own ChannelEventDelegate with a consumer that lags behind: each event read from
// the channel must still carry what Members() showed when it was delivered (the join the first metadata,
// every update its own), whatever happened to the member afterwards.
func c07Chan(r *rng, id string) {
	ch := make(chan ml.NodeEvent, 64)
	conf := ml.DefaultLANConfig()
	conf.Name = "S"
	conf.Transport = newNullTransport()
	conf.AdvertiseAddr = "10.0.0.9"
	conf.AdvertisePort = 7946
	conf.BindPort = 7946
	conf.ProbeInterval = time.Hour
	conf.GossipInterval = 0
	conf.PushPullInterval = 0
	conf.Events = &ml.ChannelEventDelegate{Ch: ch}
	conf.Logger = log.New(io.Discard, "", 0)
	m, err := ml.Create(conf)
	if err != nil {
		return
	}
	defer m.Shutdown()
	for len(ch) > 0 {
		<-ch // the node's own join
	}
	vsn := []uint8{1, 5, 2, 0, 0, 0}
	k := 2 + r.intn(5)
	var want []string
	inc := uint32(1)
	alive := false
	for i := 0; i < k; i++ {
		switch {
		case !alive:
			meta := fmt.Sprintf("m%d", i)
			ml.VerifAliveNode(m, inc, "n1", []byte{10, 0, 0, 1}, 7946, []byte(meta), vsn, nil, false)
			want = append(want, "join:"+meta)
			alive = true
		case r.chance(1, 4):
			ml.VerifDeadNode(m, inc, "n1", "n2")
			want = append(want, fmt.Sprintf("leave:m%d", i-1))
			alive = false
			inc++
		default:
			inc++
			meta := fmt.Sprintf("m%d", i)
			ml.VerifAliveNode(m, inc, "n1", []byte{10, 0, 0, 1}, 7946, []byte(meta), vsn, nil, false)
			want = append(want, "update:"+meta)
		}
	}
	// leave events carry the metadata the member had when it left: recompute from the sequence
	last := ""
	for i, w := range want {
		kv := strings.SplitN(w, ":", 2)
		if kv[0] == "leave" {
			want[i] = "leave:" + last
		} else {
			last = kv[1]
		}
	}
	var got []string
	for len(ch) > 0 {
		e := <-ch
		kind := map[ml.NodeEventType]string{ml.NodeJoin: "join", ml.NodeLeave: "leave", ml.NodeUpdate: "update"}[e.Event]
		got = append(got, kind+":"+string(e.Node.Meta))
	}
	emit("C07 chan id=%s want=%s got=%s", id, strings.Join(want, ","), strings.Join(got, ","))
}

// c07Conc: concurrent claims about different members; the event delegate checks that no
// callback starts while another one is still running.
func c07Conc(r *rng, id string) {
	cd := &concDel{}
	conf := ml.DefaultLANConfig()
	conf.Name = "S"
	conf.Transport = newNullTransport()
	conf.AdvertiseAddr = "10.0.0.9"
	conf.AdvertisePort = 7946
	conf.BindPort = 7946
	conf.ProbeInterval = time.Hour
	conf.GossipInterval = 0
	conf.PushPullInterval = 0
	conf.Events = cd
	conf.Logger = log.New(io.Discard, "", 0)
	m, err := ml.Create(conf)
	if err != nil {
		return
	}
	defer m.Shutdown()
	var wg sync.WaitGroup
	workers := 4
	for w := 0; w < workers; w++ {
		wg.Add(1)
		go func(w int) {
			defer wg.Done()
			name := fmt.Sprintf("n%d", w)
			for k := uint32(1); k < 40; k++ {
				ml.VerifAliveNode(m, 2*k, name, []byte{10, 0, 0, byte(w + 1)}, 7946, []byte{byte(k)}, []uint8{1, 5, 2, 0, 0, 0}, nil, false)
				ml.VerifSuspectNode(m, 2*k, name, "x")
				ml.VerifDeadNode(m, 2*k, name, "y")
			}
		}(w)
	}
	wg.Wait()
	emit("C07 conc id=%s callbacks=%d overlap=%d", id, cd.calls.Load(), cd.overlaps.Load())
}

// c07Poll: the application polls Members() while claims arrive on other goroutines (joins,
// failures, rejoins, reaping passes). Event callbacks run under the membership lock, so a correct
// Members() equals the replay of the event stream at some moment between its call and its return.
type pollDel struct {
	mu      sync.Mutex
	member  map[string]bool
	changes []pollChange
}
type pollChange struct {
	name string
	join bool
}

func (d *pollDel) NotifyJoin(n *ml.Node) {
	d.mu.Lock()
	d.member[n.Name] = true
	d.changes = append(d.changes, pollChange{n.Name, true})
	d.mu.Unlock()
}
func (d *pollDel) NotifyLeave(n *ml.Node) {
	d.mu.Lock()
	delete(d.member, n.Name)
	d.changes = append(d.changes, pollChange{n.Name, false})
	d.mu.Unlock()
}
func (d *pollDel) NotifyUpdate(*ml.Node) {}

func c07Poll(r *rng, id string) {
	d := &pollDel{member: map[string]bool{}}
	conf := ml.DefaultLANConfig()
	conf.Name = "S"
	conf.Transport = newNullTransport()
	conf.AdvertiseAddr = "10.0.0.9"
	conf.AdvertisePort = 7946
	conf.BindPort = 7946
	conf.ProbeInterval = time.Hour
	conf.GossipInterval = 0
	conf.PushPullInterval = 0
	conf.GossipToTheDeadTime = time.Millisecond
	conf.DeadNodeReclaimTime = time.Millisecond
	conf.Events = d
	conf.Logger = log.New(io.Discard, "", 0)
	m, err := ml.Create(conf)
	if err != nil {
		return
	}
	defer m.Shutdown()
	vsn := []uint8{1, 5, 2, 0, 0, 0}
	base := 1000 + r.intn(2000)
	late := 15000 + r.intn(10000)
	withDeaths := r.chance(1, 2)
	add := func(i int, inc uint32) {
		ml.VerifAliveNode(m, inc, fmt.Sprintf("p%d", i), []byte{10, byte(i >> 16), byte(i >> 8), byte(i)}, 7946, nil, vsn, nil, false)
	}
	for i := 0; i < base; i++ {
		add(i, 1)
	}
	var done atomic.Bool
	var wg sync.WaitGroup
	workers := 2
	seeds := []uint64{r.next(), r.next()}
	for w := 0; w < workers; w++ {
		wg.Add(1)
		go func(w int) {
			defer wg.Done()
			wr := &rng{s: seeds[w] | 1}
			for i := base + w; i < base+late && !done.Load(); i += workers {
				add(i, 1)
				if withDeaths && wr.chance(1, 8) {
					v := wr.intn(i)
					ml.VerifDeadNode(m, 1, fmt.Sprintf("p%d", v), "S")
					if wr.chance(1, 2) {
						add(v, 2)
					}
				}
				if withDeaths && wr.chance(1, 400) {
					ml.VerifResetNodes(m)
				}
			}
		}(w)
	}
	var writersDone atomic.Bool
	go func() { wg.Wait(); writersDone.Store(true) }()
	polls, pan := 0, 0
	bad := ""
	for !writersDone.Load() && bad == "" && pan == 0 {
		polls++
		d.mu.Lock()
		b := len(d.changes)
		cur := make(map[string]bool, len(d.member))
		for k := range d.member {
			cur[k] = true
		}
		d.mu.Unlock()
		var res []*ml.Node
		func() {
			defer func() {
				if rec := recover(); rec != nil {
					pan = 1
				}
			}()
			res = m.Members()
		}()
		if pan != 0 {
			break
		}
		d.mu.Lock()
		delta := append([]pollChange(nil), d.changes[b:]...)
		d.mu.Unlock()
		got := make(map[string]bool, len(res))
		dup := ""
		for _, n := range res {
			if got[n.Name] {
				dup = n.Name
			}
			got[n.Name] = true
		}
		if dup != "" {
			bad = fmt.Sprintf("poll-%d-lists-%s-twice", polls, dup)
			break
		}
		// number of names on which cur and got differ; a match at any prefix of delta is a witness
		diff := 0
		for k := range cur {
			if !got[k] {
				diff++
			}
		}
		for k := range got {
			if !cur[k] {
				diff++
			}
		}
		matched := diff == 0
		for _, c := range delta {
			if matched {
				break
			}
			was := cur[c.name]
			if was != c.join {
				if was == got[c.name] {
					diff++
				} else {
					diff--
				}
				if c.join {
					cur[c.name] = true
				} else {
					delete(cur, c.name)
				}
			}
			matched = diff == 0
		}
		if !matched {
			bad = fmt.Sprintf("poll-%d-result-of-%d-members-equals-the-event-replay-at-no-moment-of-the-call(%d-events-during-it)", polls, len(res), len(delta))
		}
	}
	done.Store(true)
	wg.Wait()
	if bad == "" {
		bad = "-"
	}
	emit("C07 poll id=%s base=%d late=%d deaths=%d polls=%d panic=%d bad=%s", id, base, late, b2i(withDeaths), polls, pan, bad)
}

type concDel struct {
	inside   atomic.Int32
	calls    atomic.Int64
	overlaps atomic.Int64
}

func (d *concDel) enter() {
	if d.inside.Add(1) != 1 {
		d.overlaps.Add(1)
	}
	d.calls.Add(1)
	for i := 0; i < 3; i++ {
		runtime.Gosched()
	}
	time.Sleep(20 * time.Microsecond)
	d.inside.Add(-1)
}
func (d *concDel) NotifyJoin(*ml.Node)   { d.enter() }
func (d *concDel) NotifyLeave(*ml.Node)  { d.enter() }
func (d *concDel) NotifyUpdate(*ml.Node) { d.enter() }

// C18: allow-list always on, address classes spread over every carrier the step harness has.
func TestC18(t *testing.T) {
	n := envInt("VERIF_N", 4000)
	if thorough() {
		n = envInt("VERIF_N", 150000)
	}
	forCases(n, 118, "h", func(i int, r *rng, id string) {
		c := randomCfg(r)
		c.allowlist = true
		c.alist = r.intn(len(allowLists))
		c.altRep = r.chance(1, 2)
		k := 1 + r.intn(30)
		ops := make([]mop, 0, k)
		nt := 0
		for j := 0; j < k; j++ {
			o := randomOp(r, c, 1, &nt)
			if o.kind == 'A' && r.chance(1, 2) {
				o.addr = []int{3, 5, 6, 4, 7, 8, 9, 10, 11, 12, 9, 11}[r.intn(12)]
			}
			for e := range o.entries {
				if r.chance(1, 2) && o.entries[e].name != "S" {
					o.entries[e].addr = []int{3, 5, 6, 4, 7, 8, 9, 10, 11, 12}[r.intn(10)]
				}
			}
			ops = append(ops, o)
		}
		runHistory("C18", id, c, ops)
	})
	forCases(n/4, 1181, "s", func(i int, r *rng, id string) { c18Src(r, id) })
	forCases(n/8, 1182, "p", func(i int, r *rng, id string) { c18Parse(r, id) })
	forCases(4, 1183, "f", func(i int, r *rng, id string) { c18Full(r, id) })
}
