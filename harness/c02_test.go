package harness

import "testing"

// C02: accusations against the local node (table with target = self, then random histories
// in which most claims are about the local node, including far-ahead incarnations).
func TestC02(t *testing.T) {
	runTable("C02", "S")
	n := envInt("VERIF_N", 1500)
	if thorough() {
		n = envInt("VERIF_N", 60000)
	}
	forCases(n, 102, "h", func(i int, r *rng, id string) { randomHistory("C02", r, id, 7, 25) })
}

// C07: events against Members() over random histories of every operation kind.
func TestC07(t *testing.T) {
	n := envInt("VERIF_N", 4000)
	if thorough() {
		n = envInt("VERIF_N", 150000)
	}
	forCases(n, 107, "h", func(i int, r *rng, id string) { randomHistory("C07", r, id, 2, 40) })
}

// C08: address conflicts / reclaim / departures: the non-local table plus random histories.
func TestC08(t *testing.T) {
	runTable("C08", "n1")
	n := envInt("VERIF_N", 1500)
	if thorough() {
		n = envInt("VERIF_N", 60000)
	}
	forCases(n, 108, "h", func(i int, r *rng, id string) { randomHistory("C08", r, id, 2, 30) })
}

// C18: allow-list always on, address classes spread over every carrier the step harness has.
func TestC18(t *testing.T) {
	n := envInt("VERIF_N", 4000)
	if thorough() {
		n = envInt("VERIF_N", 150000)
	}
	forCases(n, 118, "h", func(i int, r *rng, id string) {
		c := randomCfg(r)
		c.allowlist = true
		k := 1 + r.intn(30)
		ops := make([]mop, 0, k)
		nt := 0
		for j := 0; j < k; j++ {
			o := randomOp(r, c, 1, &nt)
			if o.kind == 'A' && r.chance(1, 2) {
				o.addr = []int{3, 5, 6, 4, 7}[r.intn(5)]
			}
			for e := range o.entries {
				if r.chance(1, 2) && o.entries[e].name != "S" {
					o.entries[e].addr = []int{3, 5, 6, 4, 7}[r.intn(5)]
				}
			}
			ops = append(ops, o)
		}
		runHistory("C18", id, c, ops)
	})
}
