package harness

import (
	"encoding/binary"
	"fmt"
	"hash/crc32"
	"io"
	"log"
	"net"
	"runtime"
	"sort"
	"strings"
	"sync"
	"sync/atomic"
	"testing"
	"time"

	ml "github.com/hashicorp/memberlist"
)

// ---- (a) framing grammar on the plaintext packet path, compared with the model ----

func genTree(r *rng, depth int) []byte {
	k := r.intn(10)
	switch {
	case depth > 0 && k < 4:
		n := r.intn(5)
		var parts [][]byte
		for i := 0; i < n; i++ {
			parts = append(parts, genTree(r, depth-1))
		}
		return ml.VerifMakeCompoundMessage(parts)
	case k < 7:
		return append([]byte{8}, r.bytes(r.intn(6))...)
	case k < 8:
		return append([]byte{byte(14 + r.intn(200))}, r.bytes(r.intn(4))...)
	case k < 9:
		return r.bytes(r.intn(5))
	default:
		return append([]byte{byte([]int{0, 1, 2, 3, 4, 5, 11}[r.intn(7)])}, 0xc1, 0xc1) // protocol type, undecodable body
	}
}

func c13Pkt(r *rng, id string) {
	label := []string{"", "", "ab", "abc"}[r.intn(4)]
	skip := r.chance(1, 5)
	rcv, err := newCnode(ccfg{label: label, skipIn: skip, name: "R"})
	if err != nil {
		return
	}
	defer rcv.m.Shutdown()
	buf := genTree(r, 4)
	if r.chance(1, 3) { // checksum header, right or wrong
		h := make([]byte, 5)
		h[0] = 12
		c := crc32.ChecksumIEEE(buf)
		if r.chance(1, 4) {
			c ^= 1 << uint(r.intn(32))
		}
		binary.BigEndian.PutUint32(h[1:], c)
		buf = append(h, buf...)
	}
	switch r.intn(6) { // label header: own, other, none, malformed
	case 0, 1:
		if label != "" {
			buf, _ = ml.AddLabelHeaderToPacket(buf, label)
		}
	case 2:
		buf, _ = ml.AddLabelHeaderToPacket(buf, "zz")
	case 3:
		buf = append([]byte{244, byte(r.intn(4))}, buf...)
	}
	switch r.intn(5) { // final mutation
	case 0:
		if len(buf) > 0 {
			buf = buf[:r.intn(len(buf)+1)]
		}
	case 1:
		if len(buf) > 0 {
			buf[r.intn(len(buf))] ^= byte(1 << uint(r.intn(8)))
		}
	}
	// does the packet carry a membership message whose body the decoder accepts? (a body of a single
	// msgpack nil decodes into an all-zero struct: odd, but decodable - acting on it is no decoding failure)
	decodable := 0
	payload := buf
	if nb, _, err := ml.RemoveLabelHeaderFromPacket(buf); err == nil {
		payload = nb
	}
	for _, part := range simParts(payload) {
		if len(part) > 0 && (part[0] == 3 || part[0] == 4 || part[0] == 5) && ml.VerifDecodes(part[0], part[1:]) {
			decodable = 1
		}
	}
	before := fmt.Sprint(ml.VerifSnapshotState(rcv.m).Nodes)
	rcv.tr.take()
	pan := rcv.ingest(append([]byte(nil), buf...))
	got := sortedHex(rcv.del.take())
	changed := b2i(fmt.Sprint(ml.VerifSnapshotState(rcv.m).Nodes) != before)
	replies := len(rcv.tr.take())
	emit("C13 pkt id=%s label=%s skip=%d buf=%s got=%s changed=%d decodable=%d replies=%d panic=%d", id, hx([]byte(label)), b2i(skip), hx(buf), got, changed, decodable, replies, b2i(pan))
}

// ---- (b) mutation campaign on genuine packets ----

type effect struct {
	state   string
	got     int
	replies int
	events  int
}

func (n *cnode) observe() effect {
	s := ml.VerifSnapshotState(n.m)
	return effect{state: fmt.Sprint(s.Nodes, s.Incarnation, s.Score, len(s.Timers)), got: len(n.del.take()), replies: len(n.tr.take()), events: len(n.ev.take())}
}

func genuinePackets(r *rng, snd *cnode) (descr []string, pkts [][]byte, leafType []int, leafBody [][]byte) {
	add := func(d string, t int, msg []byte) {
		snd.tr.take()
		to := &ml.Node{Name: "R", Addr: []byte{10, 0, 0, 1}, Port: 7946, PMax: uint8(2 + 3*r.intn(2))}
		ml.VerifRawSendMsgPacket(snd.m, ml.Address{Addr: "10.0.0.1:7946", Name: "R"}, to, msg)
		for _, p := range snd.tr.take() {
			descr = append(descr, d)
			pkts = append(pkts, p)
			leafType = append(leafType, t)
			leafBody = append(leafBody, msg)
		}
	}
	ping, _ := ml.VerifEncode(0, 77, "R", nil)
	add("ping", 0, ping)
	ack, _ := ml.VerifEncode(2, 78, "", []byte("pl"))
	add("ack", 2, ack)
	sus, _ := ml.VerifEncode(3, 2, "n1", []byte("n2"))
	add("suspect", 3, sus)
	dead, _ := ml.VerifEncode(5, 2, "n1", []byte("n2"))
	add("dead", 5, dead)
	add("alive", 4, ml.VerifEncodeAlive(3, "n7", []byte{10, 0, 0, 7}, 7946, []byte("md"), []uint8{1, 5, 2, 0, 0, 0}))
	add("user", 8, append([]byte{8}, r.bytes(1+r.intn(20))...))
	add("compound", 7, ml.VerifMakeCompoundMessage([][]byte{sus, append([]byte{8}, 1, 2, 3), dead}))
	return
}

func c13Mut(r *rng, id string) {
	c, enc := randCcfg(r)
	c.compress = r.chance(1, 3)
	if r.chance(1, 2) { // half of the campaigns on bare plaintext leaves, where decodability is known
		c = ccfg{udp: 1400, verifyIn: true, verifyOut: true, proto: 2}
		enc = "n"
	}
	snd, err := newCnode(c)
	if err != nil {
		return
	}
	defer snd.m.Shutdown()
	rc := c
	rc.name = "R"
	rcv, err := newCnode(rc)
	if err != nil {
		return
	}
	defer rcv.m.Shutdown()
	// the receiver knows n1 (alive, inc 2), so that suspect/dead messages matter
	ml.VerifAliveNode(rcv.m, 2, "n1", []byte{10, 0, 0, 3}, 7946, nil, []uint8{1, 5, 2, 0, 0, 0}, nil, false)
	ml.VerifAliveNode(rcv.m, 2, "n2", []byte{10, 0, 0, 4}, 7946, nil, []uint8{1, 5, 2, 0, 0, 0}, nil, false)
	descr, pkts, ltype, lbody := genuinePackets(r, snd)
	k := r.intn(len(pkts))
	if c.label == "" && enc == "n" && !c.compress {
		k = []int{2, 3, 4, 0, 1}[r.intn(5)] // suspect, dead, alive, ping, ack: the structured leaves
		if k >= len(pkts) {
			k = 0
		}
	}
	base, d := pkts[k], descr[k]
	rcv.observe()
	total, bads := 0, []string{}
	try := func(kind string, off int, mut []byte, mustBeInert bool) {
		total++
		before := ml.VerifSnapshotState(rcv.m)
		bs := fmt.Sprint(before.Nodes, before.Incarnation, before.Score, len(before.Timers))
		pan := rcv.ingest(mut)
		e := rcv.observe()
		acted := e.state != bs || e.got > 0 || e.replies > 0 || e.events > 0
		if pan {
			bads = append(bads, fmt.Sprintf("panic:%s:%d", kind, off))
		} else if mustBeInert && acted {
			bads = append(bads, fmt.Sprintf("effect-of-undecodable-input:%s:%d", kind, off))
		}
		if acted && e.state != bs {
			// restore a known state for the next mutation
			ml.VerifSetRecord(rcv.m, "n1", 2, ml.StateAlive)
			rcv.observe()
		}
	}
	// every truncation
	plainLeaf := enc == "n" && !c.compress && ltype[k] != 7 && c.label == ""
	for cut := 0; cut < len(base); cut++ {
		inert := false
		if enc != "n" {
			inert = true // C14: a truncated ciphertext never authenticates
		} else if plainLeaf {
			// body of the leaf message after the cut (the CRC header, if any, is in front)
			inert = !decodesAfter(base[:cut], ltype[k])
		}
		try("trunc", cut, append([]byte(nil), base[:cut]...), inert)
	}
	// three bit patterns per byte
	for off := 0; off < len(base); off++ {
		pats := []byte{0x01, 0x80, 0xff}
		if plainLeaf {
			pats = []byte{0x01, 0x02, 0x04, 0x07, 0x08, 0x0c, 0x80, 0xff}
		}
		for _, pat := range pats {
			mut := append([]byte(nil), base...)
			mut[off] ^= pat
			inert := false
			if enc != "n" && off > 0+len2(c.label) {
				inert = true // anything behind the version byte is authenticated
			} else if plainLeaf {
				inert = !decodesAfter(mut, ltype[k])
			}
			try("flip", off, mut, inert)
		}
	}
	_ = lbody
	bs := "-"
	if len(bads) > 0 {
		sort.Strings(bads)
		if len(bads) > 6 {
			bads = bads[:6]
		}
		bs = strings.Join(bads, ",")
	}
	emit("C13 mut id=%s msg=%s label=%d enc=%s comp=%d len=%d n=%d bad=%s", id, d, len(c.label), enc, b2i(c.compress), len(base), total, bs)
}

func len2(label string) int {
	if label == "" {
		return 0
	}
	return 2 + len(label)
}

// decodesAfter: does the (possibly CRC-framed) plaintext packet still carry a leaf message of
// the original type whose body decodes? Undecodable input must be inert.
func decodesAfter(buf []byte, t int) bool {
	if len(buf) >= 5 && buf[0] == 12 {
		if crc32.ChecksumIEEE(buf[5:]) != binary.BigEndian.Uint32(buf[1:5]) {
			return false
		}
		buf = buf[5:]
	}
	if len(buf) < 1 {
		return false
	}
	mt := int(buf[0])
	switch mt {
	case 8:
		return true // user messages have no structure: any body is a delivery
	case 7, 9:
		return true // nested framing: judged elsewhere
	case 0, 1, 2, 3, 4, 5, 11:
		return ml.VerifDecodes(uint8(mt), buf[1:])
	}
	return false
}

// ---- (c) streams: every cut point, oversize declarations ----

func c13Str(r *rng, id string) {
	c, enc := randCcfg(r)
	snd, err := newCnode(c)
	if err != nil {
		return
	}
	defer snd.m.Shutdown()
	rc := c
	rc.name = "R"
	// a receiver without a user Delegate gets streams that carry user state / user messages all the same
	rc.noDel = r.chance(1, 3)
	rcv, err := newCnode(rc)
	if err != nil {
		return
	}
	defer rcv.m.Shutdown()
	to := &ml.Node{Name: "R", Addr: []byte{10, 0, 0, 1}, Port: 7946, PMax: 5}
	ml.VerifAliveNode(snd.m, 5, "n5", []byte{10, 0, 0, 5}, 7946, []byte("m5"), []uint8{1, 5, 2, 0, 0, 0}, nil, false)
	snd.del.state = r.bytes(r.intn(30))
	kind := []string{"user", "pushpull", "ping"}[r.intn(3)]
	var data []byte
	switch kind {
	case "user":
		data = captureStream(snd, func() { snd.m.SendReliable(to, r.bytes(1+r.intn(60))) })
	case "pushpull":
		data = captureStream(snd, func() { snd.m.Join([]string{"R/10.0.0.1:7946"}) })
	case "ping":
		ping, _ := ml.VerifEncode(0, 5, "R", nil)
		fc := newFragConn(nil, nil)
		ml.AddLabelHeaderToStream(fc, c.label)
		ml.VerifRawSendMsgStream(snd.m, fc, ping, c.label)
		data = fc.written()
	}
	total, bads := 0, []string{}
	g0 := runtime.NumGoroutine()
	rcv.observe()
	run := func(tag string, off int, in []byte, complete bool) {
		total++
		before := ml.VerifSnapshotState(rcv.m)
		bs := fmt.Sprint(before.Nodes, before.Incarnation)
		fc := newFragConn(in, randCuts(r, len(in)))
		pan := false
		done := make(chan struct{})
		go func() {
			defer func() {
				if rec := recover(); rec != nil {
					pan = true
				}
				close(done)
			}()
			ml.VerifHandleConn(rcv.m, fc)
		}()
		select {
		case <-done:
		case <-time.After(10 * time.Second):
			bads = append(bads, fmt.Sprintf("hang:%s:%d", tag, off))
			return
		}
		after := ml.VerifSnapshotState(rcv.m)
		as := fmt.Sprint(after.Nodes, after.Incarnation)
		got := len(rcv.del.take())
		merged := len(rcv.del.merged)
		rcv.del.merged = nil
		if pan {
			bads = append(bads, fmt.Sprintf("panic:%s:%d", tag, off))
		} else if !complete && (as != bs || got > 0 || merged > 0) {
			bads = append(bads, fmt.Sprintf("effect-of-incomplete-stream:%s:%d", tag, off))
		}
		if !fc.closed {
			bads = append(bads, fmt.Sprintf("connection-not-closed:%s:%d", tag, off))
		}
		if as != bs {
			// forget what a complete push/pull taught us
			for _, n := range after.Nodes {
				if n.Name != "R" {
					ml.VerifSetRecord(rcv.m, n.Name, n.Incarnation, ml.StateDead)
					ml.VerifSetStateChange(rcv.m, n.Name, time.Now().Add(-3*time.Hour))
				}
			}
			ml.VerifResetNodes(rcv.m)
		}
	}
	for cut := 0; cut < len(data); cut++ {
		run("cut", cut, append([]byte(nil), data[:cut]...), false)
	}
	run("whole", len(data), append([]byte(nil), data...), true)
	for i := 0; i < 60 && len(data) > 0; i++ {
		off := r.intn(len(data))
		mut := append([]byte(nil), data...)
		bit := r.intn(8)
		mut[off] ^= byte(1 << uint(bit))
		// a flipped plaintext stream may still be complete and valid; so may a sealed one whose version
		// byte is toggled between 0 and 1 (not covered by the seal: C14's recorded finding, not a decoding failure)
		verToggle := enc != "n" && off == len2(c.label)+5 && bit == 0
		run("flip", off, mut, enc == "n" || verToggle)
	}
	// well-framed compression envelopes around degenerate contents: nothing at all, a lone type
	// byte of each kind, and an envelope whose compressed body is itself empty
	degenerate := [][]byte{nil, {0}, {1}, {2}, {3}, {4}, {5}, {6}, {7}, {8}, {9}, {10}, {11}, {12}, {200}}
	for di, inner := range degenerate {
		env, err := ml.VerifCompressPayload(inner)
		if err != nil {
			continue
		}
		if enc != "n" {
			if env, err = ml.VerifEncryptLocalState(snd.m, env, c.label); err != nil {
				continue
			}
		}
		fc := newFragConn(nil, nil)
		ml.AddLabelHeaderToStream(fc, c.label)
		run("degenerate", di, append(fc.written(), env...), len(inner) > 0 && inner[0] == 8)
	}
	if emptyBody := []byte{9, 0x82, 0xa4, 'A', 'l', 'g', 'o', 0, 0xa3, 'B', 'u', 'f', 0xa0}; enc == "n" {
		fc := newFragConn(nil, nil)
		ml.AddLabelHeaderToStream(fc, c.label)
		run("degenerate", 99, append(fc.written(), emptyBody...), false)
	}
	if g := runtime.NumGoroutine(); g > g0+2 {
		time.Sleep(20 * time.Millisecond)
		if g = runtime.NumGoroutine(); g > g0+2 {
			bads = append(bads, fmt.Sprintf("goroutine-leak:%d->%d", g0, g))
		}
	}
	bs := "-"
	if len(bads) > 0 {
		if len(bads) > 6 {
			bads = bads[:6]
		}
		bs = strings.Join(bads, ",")
	}
	emit("C13 str id=%s kind=%s label=%d enc=%s comp=%d len=%d n=%d bad=%s", id, kind, len(c.label), enc, b2i(c.compress), len(data), total, bs)
}

// ---- (d) declared sizes beyond the caps are refused before anything is buffered ----

func c13Caps(r *rng, id string) {
	rcv, err := newCnode(ccfg{name: "R"})
	if err != nil {
		return
	}
	defer rcv.m.Shutdown()
	type tc struct {
		name string
		data []byte
	}
	big := func(n int) []byte {
		return append(ml.VerifEncodeUserMsgHeader(n), 1, 2, 3, 4, 5, 6, 7, 8, 9, 10, 11, 12, 13, 14, 15, 16)
	}
	cases := []tc{
		{"usermsg-cap+1", big(20*1024*1024 + 1)},
		{"usermsg-2^31", big(1 << 31)},
		{"usermsg-2^32+1024", big(1<<32 + 1024)},
		{"usermsg-negative", big(-5)},
		{"usermsg-maxint", big(1<<62 + 7)},
		{"pushpull-nodes-cap+1", ml.VerifEncodePushPullHeader(1024*1024+1, 0, false)},
		{"pushpull-nodes-2^32+5", ml.VerifEncodePushPullHeader(1<<32+5, 0, false)},
		{"pushpull-nodes-negative", ml.VerifEncodePushPullHeader(-1, 0, false)},
		{"pushpull-userstate-cap+1", ml.VerifEncodePushPullHeader(0, 20*1024*1024+1, false)},
		{"pushpull-userstate-2^32+9", ml.VerifEncodePushPullHeader(0, 1<<32+9, false)},
		{"pushpull-userstate-negative", ml.VerifEncodePushPullHeader(0, -1, false)},
		{"encrypted-length-cap+1", append([]byte{10}, 0x01, 0x40, 0x00, 0x01, 1, 2, 3)},
	}
	var res []string
	for _, c := range cases {
		var ms0, ms1 runtime.MemStats
		runtime.GC()
		runtime.ReadMemStats(&ms0)
		fc := newFragConn(c.data, nil)
		pan := false
		func() {
			defer func() {
				if rec := recover(); rec != nil {
					pan = true
				}
			}()
			ml.VerifHandleConn(rcv.m, fc)
		}()
		runtime.ReadMemStats(&ms1)
		alloc := ms1.TotalAlloc - ms0.TotalAlloc
		st := "ok"
		if pan {
			st = "panic"
		} else if alloc > 4*1024*1024 {
			st = fmt.Sprintf("buffered:%dMiB", alloc>>20)
		} else if len(rcv.del.take()) > 0 || len(rcv.del.merged) > 0 {
			st = "processed"
		}
		res = append(res, c.name+"="+st)
	}
	// a compression envelope that inflates far beyond the decompression cap (40 MiB): refused, and refused
	// without inflating all of it first
	{
		bomb, err := ml.VerifCompressPayload(make([]byte, 256<<20))
		if err == nil {
			var ms0, ms1 runtime.MemStats
			runtime.GC()
			runtime.ReadMemStats(&ms0)
			pan := rcv.ingest(bomb)
			runtime.ReadMemStats(&ms1)
			alloc := ms1.TotalAlloc - ms0.TotalAlloc
			st := "ok"
			if pan {
				st = "panic"
			} else if alloc > 320<<20 {
				st = fmt.Sprintf("buffered:%dMiB", alloc>>20)
			} else if len(rcv.del.take()) > 0 {
				st = "processed"
			}
			res = append(res, fmt.Sprintf("decompress-bomb-%dKiB=%s", len(bomb)>>10, st))
			bomb = nil
			runtime.GC()
		}
	}
	// the same question on a node that has a key (the length field of the encryption envelope is read
	// before anything is authenticated): how much of what follows is taken off the connection?
	if rcvE, err := newCnode(ccfg{name: "RE", key: []byte("0123456789abcdef"), verifyIn: true, verifyOut: true}); err == nil {
		for _, declared := range []uint32{20*1024*1024 + 1, 64 * 1024 * 1024, 0xFFFFFFFF} {
			offered := 6 * 1024 * 1024
			data := make([]byte, 5+offered)
			data[0] = 10
			binary.BigEndian.PutUint32(data[1:5], declared)
			fc := newFragConn(data, []int{5, 5 + 65536})
			pan := false
			func() {
				defer func() {
					if rec := recover(); rec != nil {
						pan = true
					}
				}()
				ml.VerifHandleConn(rcvE.m, fc)
			}()
			left := 0
			for _, f := range fc.frags {
				left += len(f)
			}
			taken := offered - left
			st := "ok"
			if pan {
				st = "panic"
			} else if taken > 1024*1024 {
				st = fmt.Sprintf("buffered:%dMiB", taken>>20)
			}
			res = append(res, fmt.Sprintf("sealed-length-%d=%s", declared, st))
		}
		rcvE.m.Shutdown()
	}
	// handoff queue depth: block the handler, flood, and look at the queue
	blk := make(chan struct{})
	rcv2, err := newCnode(ccfg{name: "R2"})
	if err == nil {
		defer rcv2.m.Shutdown()
		rcv2.del.block = blk
		for i := 0; i < 3000; i++ {
			ml.VerifIngestPacket(rcv2.m, []byte{8, byte(i), byte(i >> 8)}, fromAddr, time.Now())
		}
		depth := ml.VerifHandoffLen(rcv2.m)
		close(blk)
		st := "ok"
		if depth > 1024 {
			st = fmt.Sprintf("queued:%d", depth)
		}
		res = append(res, "handoff-depth="+st)
	}
	// the same for every message kind that goes through the handoff queues (alive has a queue of its own)
	for _, kind := range []string{"alive", "suspect", "dead"} {
		blk2 := make(chan struct{})
		rn, err := newCnode(ccfg{name: "R3"})
		if err != nil {
			continue
		}
		rn.del.block = blk2
		ml.VerifIngestPacket(rn.m, []byte{8, 1, 2}, fromAddr, time.Now()) // parks the handler in NotifyMsg
		time.Sleep(20 * time.Millisecond)
		for i := 0; i < 3000; i++ {
			var msg []byte
			switch kind {
			case "alive":
				msg = ml.VerifEncodeAlive(1, fmt.Sprintf("f%d", i), []byte{10, 1, byte(i >> 8), byte(i)}, 7946, nil, []uint8{1, 5, 2, 0, 0, 0})
			case "suspect":
				msg, _ = ml.VerifEncode(3, 1, fmt.Sprintf("f%d", i), []byte("x"))
			default:
				msg, _ = ml.VerifEncode(5, 1, fmt.Sprintf("f%d", i), []byte("x"))
			}
			ml.VerifIngestPacket(rn.m, msg, fromAddr, time.Now())
		}
		depth := ml.VerifHandoffLen(rn.m)
		close(blk2)
		st := "ok"
		if depth > 1024 {
			st = fmt.Sprintf("queued:%d", depth)
		}
		res = append(res, "handoff-depth-"+kind+"="+st)
		rn.m.Shutdown()
	}
	emit("C13 caps id=%s res=%s", id, strings.Join(res, ","))
}

// (e) well-formed messages whose fields sit on the boundaries the handlers index or compare: version
// vectors of 0..8 bytes, addresses of every length around 4 and 16, empty and long names, metadata at
// the limit - for a member the node has never heard of and for one it knows - through the very
// functions packetHandler runs for queued messages.
func c13Fields(r *rng, id string) {
	rcv, err := newCnode(ccfg{udp: 1400, verifyIn: true, verifyOut: true, proto: 2, name: "R"})
	if err != nil {
		return
	}
	defer rcv.m.Shutdown()
	ml.VerifAliveNode(rcv.m, 2, "n1", []byte{10, 0, 0, 3}, 7946, nil, []uint8{1, 5, 2, 0, 0, 0}, nil, false)
	total, bads := 0, []string{}
	names := []string{"fresh", "n1", "", strings.Repeat("x", 300), "R"}
	addrs := [][]byte{nil, {10}, {10, 0, 0}, {10, 0, 0, 7}, {10, 0, 0, 7, 1}, make([]byte, 15), make([]byte, 16), make([]byte, 17)}
	metas := [][]byte{nil, []byte("m"), make([]byte, 511), make([]byte, 512), make([]byte, 513), make([]byte, 1200)}
	try := func(tag string, t uint8, body []byte) {
		total++
		if ml.VerifHandleQueued(rcv.m, t, body, fromAddr) {
			bads = append(bads, "panic:"+tag)
		}
	}
	fresh := 0
	for vl := 0; vl <= 8; vl++ {
		vsn := []uint8{1, 5, 2, 0, 0, 0, 0, 0}[:vl]
		for _, nm := range names {
			name := nm
			if nm == "fresh" {
				fresh++
				name = fmt.Sprintf("f%d", fresh)
			}
			a := addrs[r.intn(len(addrs))]
			md := metas[r.intn(len(metas))]
			msg := ml.VerifEncodeAlive(uint32(1+r.intn(5)), name, a, 7946, md, vsn)
			try(fmt.Sprintf("alive:vsn%d:name%d:addr%d:meta%d", vl, len(name), len(a), len(md)), 4, msg[1:])
		}
	}
	for _, a := range addrs {
		fresh++
		msg := ml.VerifEncodeAlive(3, fmt.Sprintf("f%d", fresh), a, 7946, nil, []uint8{1, 5, 2, 0, 0, 0})
		try(fmt.Sprintf("alive:addr%d", len(a)), 4, msg[1:])
	}
	for _, nm := range []string{"", "n1", "R", "ghost", strings.Repeat("y", 400)} {
		for _, fr := range []string{"", "n1", "R", nm} {
			for _, t := range []uint8{3, 5} {
				msg, _ := ml.VerifEncode(t, uint32(r.intn(4)), nm, []byte(fr))
				try(fmt.Sprintf("type%d:node%d:from%d", t, len(nm), len(fr)), t, msg[1:])
			}
		}
	}
	for _, n := range []int{0, 1, 511, 512, 513, 5000} {
		try(fmt.Sprintf("user:%d", n), 8, make([]byte, n))
	}
	bs := "-"
	if len(bads) > 0 {
		if len(bads) > 6 {
			bads = bads[:6]
		}
		bs = strings.Join(bads, ",")
	}
	emit("C13 fld id=%s n=%d bad=%s", id, total, bs)
}

// (f) silent peers: a stream that delivers a prefix of a genuine message - nothing at all, part of the
// label header, part of the body - and then stays open without sending more. The handler must give
// up at the stream timeout; it must not park for ever.
// c13StallProp: the silent-peer leg also runs under C20 (a handler must not outlive Shutdown by more than its stream timeout).
var c13StallProp = "C13"

func c13Stall(r *rng, id string) {
	c, enc := randCcfg(r)
	snd, err := newCnode(c)
	if err != nil {
		return
	}
	defer snd.m.Shutdown()
	rc := c
	rc.name = "R"
	rc.tcpTimeout = 150 * time.Millisecond
	rcv, err := newCnode(rc)
	if err != nil {
		return
	}
	defer rcv.m.Shutdown()
	ping, _ := ml.VerifEncode(0, 5, "R", nil)
	fc := newFragConn(nil, nil)
	ml.AddLabelHeaderToStream(fc, c.label)
	ml.VerifRawSendMsgStream(snd.m, fc, ping, c.label)
	data := fc.written()
	cuts := []int{0, 1, 2, 3}
	if len(c.label) > 0 {
		cuts = append(cuts, 2+len(c.label)-1, 2+len(c.label), 2+len(c.label)+1)
	}
	cuts = append(cuts, len(data)/2, len(data)-1)
	total, bads := 0, []string{}
	for _, cut := range cuts {
		if cut < 0 || cut >= len(data) {
			continue
		}
		total++
		a, b := net.Pipe()
		done := make(chan struct{})
		go func() {
			defer func() { recover(); close(done) }()
			ml.VerifHandleConn(rcv.m, b)
		}()
		go func() {
			if cut > 0 {
				a.Write(data[:cut])
			}
		}()
		select {
		case <-done:
		case <-time.After(10 * time.Second):
			bads = append(bads, fmt.Sprintf("handler-parked-on-silent-peer:cut%d/%d:label%d", cut, len(data), len(c.label)))
		}
		a.Close()
		<-done
	}
	bs := "-"
	if len(bads) > 0 {
		bs = strings.Join(bads, ",")
	}
	emit(c13StallProp+" stall id=%s label=%d enc=%s n=%d bad=%s", id, len(c.label), enc, total, bs)
}

// c13Nacks: a replayed (or hostile) burst of nack messages carrying the sequence number of a probe that is
// still in flight: the packet path must take every one of them without ever waiting, and the node must
// still shut down.
func c13Nacks(r *rng, id string) {
	n, err := newC19(3, "off", 8)
	if err != nil {
		return
	}
	m := n.m
	vsn := []uint8{1, 5, 2, 0, 0, 0}
	ml.VerifAliveNode(m, 1, "T", []byte{10, 0, 0, 1}, 7946, nil, vsn, nil, false)
	for i := 0; i < 3; i++ {
		ml.VerifAliveNode(m, 1, fmt.Sprintf("R%d", i), []byte{10, 0, 1, byte(i + 1)}, 7946, nil, vsn, nil, false)
	}
	ml.VerifResetBroadcasts(m) // nothing to piggyback: the ping travels alone and its number can be read off
	n.tr.take()
	probeDone := make(chan struct{})
	go func() { ml.VerifProbeNodeByName(m, "T"); close(probeDone) }()
	seq := uint32(0)
	for i := 0; i < 200 && seq == 0; i++ {
		time.Sleep(5 * time.Millisecond)
		for _, p := range n.tr.take() {
			if len(p) > 1 && p[0] == 0 {
				seq, _, _ = ml.VerifDecodePing(p[1:])
			}
		}
	}
	if seq == 0 {
		m.Shutdown()
		return // no ping seen in time (an overloaded machine): no verdict
	}
	copies := 5 + r.intn(6)
	at := []time.Duration{0, 100 * time.Millisecond, 600 * time.Millisecond}[r.intn(3)] // before / after the indirect pings went out
	time.Sleep(at)
	fed := make(chan struct{})
	go func() {
		defer func() { recover(); close(fed) }()
		for i := 0; i < copies; i++ {
			nack, _ := ml.VerifEncode(11, seq, "", nil)
			ml.VerifIngestPacket(m, nack, fromAddr, time.Now())
		}
	}()
	hang := 0
	select {
	case <-fed:
	case <-time.After(4 * time.Second):
		hang = 1
	}
	select {
	case <-probeDone:
	case <-time.After(6 * time.Second):
		hang |= 2
	}
	// the same for a record created on relay duty (somebody asked this node to ping T on their behalf): a
	// nack carrying the relay's own fresh number is foreign traffic and must simply be ignored
	relayPanic := 0
	func() {
		defer func() {
			if rec := recover(); rec != nil {
				relayPanic = 1
			}
		}()
		n.tr.take()
		req := ml.VerifEncodeIndirectPing(777, []byte{10, 0, 0, 1}, 7946, "T", true, []byte{10, 0, 1, 1}, 7946, "R0")
		ml.VerifIngestPacket(m, req, fromAddr, time.Now())
		rseq := uint32(0)
		for i := 0; i < 100 && rseq == 0; i++ {
			time.Sleep(2 * time.Millisecond)
			for _, pk := range n.tr.take() {
				for _, p := range simParts(pk) { // the ping may travel with piggybacked gossip
					if len(p) > 1 && p[0] == 0 {
						rseq, _, _ = ml.VerifDecodePing(p[1:])
					}
				}
			}
		}
		if rseq != 0 {
			nack, _ := ml.VerifEncode(11, rseq, "", nil)
			ml.VerifIngestPacket(m, nack, fromAddr, time.Now())
		}
	}()
	sd := make(chan struct{})
	go func() { m.Shutdown(); close(sd) }()
	select {
	case <-sd:
	case <-time.After(4 * time.Second):
		hang |= 4
	}
	bs := "-"
	if hang != 0 {
		bs = fmt.Sprintf("hang:packet-path-blocked-on-a-nack(%d-copies-for-seq-%d,mask=%d)", copies, seq, hang)
	} else if relayPanic != 0 {
		bs = "panic:nack-carrying-the-number-of-a-relayed-ping"
	}
	if seq == 0 {
		return // the ping was not seen in time (an overloaded machine): the scenario did not get off the ground, no verdict
	}
	emit("C13 nacks id=%s n=%d bad=%s", id, copies, bs)
}

// hoDel logs, in one sequence, the effects of what the packet handler takes off the handoff queues.
type hoDel struct {
	mu     sync.Mutex
	log    []string
	blk    chan struct{}
	parked atomic.Bool
}

func (d *hoDel) NodeMeta(int) []byte { return nil }
func (d *hoDel) NotifyMsg(b []byte) {
	if len(b) == 1 && b[0] == 'P' {
		d.parked.Store(true)
		<-d.blk
		return
	}
	d.mu.Lock()
	if len(b) == 2 {
		d.log = append(d.log, fmt.Sprintf("o%d", int(b[0])<<8|int(b[1])))
	}
	d.mu.Unlock()
}
func (d *hoDel) GetBroadcasts(int, int) [][]byte { return nil }
func (d *hoDel) LocalState(bool) []byte          { return nil }
func (d *hoDel) MergeRemoteState([]byte, bool)   {}
func (d *hoDel) NotifyJoin(n *ml.Node) {
	if strings.HasPrefix(n.Name, "h") {
		d.mu.Lock()
		d.log = append(d.log, "a"+n.Name[1:])
		d.mu.Unlock()
	}
}
func (d *hoDel) NotifyLeave(*ml.Node)  {}
func (d *hoDel) NotifyUpdate(*ml.Node) {}

// c13Handoff: messages pile up in the handoff queues while the handler is busy; once it runs, what takes
// effect, and in which order, is compared with the queue model (bounded, newest first, alive gossip first,
// a full queue drops, a message keeps its source).
func c13Handoff(r *rng, id string) {
	d := &hoDel{blk: make(chan struct{})}
	depth := 2 + r.intn(5)
	conf := ml.DefaultLANConfig()
	conf.Name = "R"
	conf.Transport = newNullTransport()
	conf.AdvertiseAddr = "10.0.0.9"
	conf.AdvertisePort = 7946
	conf.BindPort = 7946
	conf.ProbeInterval = time.Hour
	conf.GossipInterval = 0
	conf.PushPullInterval = 0
	conf.HandoffQueueDepth = depth
	conf.Delegate = d
	conf.Events = d
	conf.CIDRsAllowed, _ = ml.ParseCIDRs([]string{"10.0.0.0/8"})
	conf.Logger = log.New(io.Discard, "", 0)
	m, err := ml.Create(conf)
	if err != nil {
		return
	}
	ml.VerifIngestPacket(m, []byte{8, 'P'}, fromAddr, time.Now())
	for i := 0; i < 2000 && !d.parked.Load(); i++ {
		time.Sleep(time.Millisecond)
	}
	if !d.parked.Load() {
		close(d.blk)
		m.Shutdown()
		return // the handler never got to the parking message (an overloaded machine): no verdict
	}
	outsider, _ := net.ResolveUDPAddr("udp", "192.168.0.9:7946")
	vsn := []uint8{1, 5, 2, 0, 0, 0}
	n := 4 + r.intn(16)
	var msgs []string
	for i := 1; i <= n; i++ {
		if r.chance(1, 2) {
			src, ok := net.Addr(fromAddr), 1
			if r.chance(1, 4) {
				src, ok = outsider, 0
			}
			ml.VerifIngestPacket(m, ml.VerifEncodeAlive(1, fmt.Sprintf("h%d", i), []byte{10, 2, 0, byte(i)}, 7946, nil, vsn), src, time.Now())
			msgs = append(msgs, fmt.Sprintf("a:%d:%d", i, ok))
		} else {
			ml.VerifIngestPacket(m, []byte{8, byte(i >> 8), byte(i)}, fromAddr, time.Now())
			msgs = append(msgs, fmt.Sprintf("o:%d:1", i))
		}
	}
	queued := ml.VerifHandoffLen(m)
	close(d.blk)
	for i := 0; i < 4000 && ml.VerifHandoffLen(m) > 0; i++ {
		time.Sleep(time.Millisecond)
	}
	time.Sleep(30 * time.Millisecond)
	d.mu.Lock()
	lg := strings.Join(d.log, ".")
	d.mu.Unlock()
	if lg == "" {
		lg = "-"
	}
	emit("C13 handoff id=%s depth=%d queued=%d msgs=%s log=%s", id, depth, queued, strings.Join(msgs, ","), lg)
	m.Shutdown()
}

func TestC13(t *testing.T) {
	n := envInt("VERIF_N", 1500)
	if thorough() {
		n = envInt("VERIF_N", 50000)
	}
	forCases(n, 131, "p", func(i int, r *rng, id string) { c13Pkt(r, id) })
	forCases(n/25, 132, "m", func(i int, r *rng, id string) { c13Mut(r, id) })
	forCases(n/50, 133, "s", func(i int, r *rng, id string) { c13Str(r, id) })
	forCases(1, 134, "c", func(i int, r *rng, id string) { c13Caps(r, id) })
	forCases(1+n/500, 135, "f", func(i int, r *rng, id string) { c13Fields(r, id) })
	forCases(2+n/300, 136, "t", func(i int, r *rng, id string) { c13Stall(r, id) })
	forCases(3, 137, "k", func(i int, r *rng, id string) { c13Nacks(r, id) })
	forCases(20+n/100, 138, "h", func(i int, r *rng, id string) { c13Handoff(r, id) })
	// well-formed answers at awkward moments (late acknowledgements, the stream fallback answering first) must not
	// leave a goroutine of the probe round behind
	c19Prop = "C13"
	forCases(n/3, 139, "q", func(i int, r *rng, id string) { probeBubble(t, id, func() { c19Probe(r, id) }) })
	c19Prop = "C19"
}
