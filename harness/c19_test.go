package harness

import (
	"fmt"
	"io"
	"log"
	"net"
	"sort"
	"strings"
	"sync"
	"sync/atomic"
	"testing"
	"testing/synctest"
	"time"

	ml "github.com/hashicorp/memberlist"
)

type c19node struct {
	m  *ml.Memberlist
	tr *capTransport
}

func newC19(indirect int, tcpMode string, awareMax int) (*c19node, error) {
	return newC19x(indirect, tcpMode, awareMax, time.Second, 500*time.Millisecond)
}

func newC19x(indirect int, tcpMode string, awareMax int, interval, timeout time.Duration) (*c19node, error) {
	tr := newCapTransport()
	conf := ml.DefaultLANConfig()
	conf.Name = "S"
	conf.Transport = tr
	conf.AdvertiseAddr = "10.0.0.9"
	conf.AdvertisePort = 7946
	conf.BindPort = 7946
	conf.ProbeInterval = interval
	conf.ProbeTimeout = timeout
	conf.GossipInterval = 0
	conf.PushPullInterval = 0
	conf.IndirectChecks = indirect
	conf.AwarenessMaxMultiplier = awareMax
	conf.DisableTcpPings = tcpMode == "off"
	conf.EnableCompression = false
	conf.Logger = log.New(io.Discard, "", 0)
	m, err := ml.Create(conf)
	if err != nil {
		return nil, err
	}
	ml.VerifDeschedule(m)
	return &c19node{m, tr}, nil
}

// tcpConn answers a TCP fallback ping according to mode.
func tcpDial(mode string, lateAt *time.Time) func(addr string) (net.Conn, error) {
	return func(addr string) (net.Conn, error) {
		if mode == "fail" {
			return nil, fmt.Errorf("connection refused")
		}
		if mode == "late" {
			time.Sleep(300 * time.Millisecond) // a slow dial (SYN retransmission)
		}
		a, b := net.Pipe()
		go func() {
			defer b.Close()
			buf := make([]byte, 512)
			n, err := b.Read(buf)
			if err != nil || n < 2 {
				return
			}
			seq, _, ok := ml.VerifDecodePing(buf[1:n])
			if !ok {
				return
			}
			if mode == "wrongseq" {
				seq += 7
			}
			if mode == "late" {
				// the right ack, but after the probe's deadline (and within deadline + dial time)
				time.Sleep(time.Until(*lateAt))
			}
			ack, _ := ml.VerifEncode(2, seq, "", nil)
			b.Write(ack)
		}()
		return a, nil
	}
}

// c19Prop is the property the probe scripts report under (they also run under C20: a probe round ends by its deadline).
var c19Prop = "C19"

// probeBubble runs one probe script in its own bubble; goroutines of the round that are still blocked when the
// script has ended (the bubble reports them by panicking) are a finding of their own, with the script as replay.
func probeBubble(t *testing.T, id string, f func()) {
	prop := c19Prop
	defer func() {
		if rec := recover(); rec != nil {
			msg := strings.Map(func(c rune) rune {
				if c == ' ' || c == '\n' || c == '\t' || c == '=' {
					return '_'
				}
				return c
			}, fmt.Sprint(rec))
			if len(msg) > 160 {
				msg = msg[:160]
			}
			emit("%s leak id=%s msg=%s", prop, id, msg)
			flushOut()
		}
	}()
	synctest.Test(t, func(t *testing.T) { f() })
}

func c19Probe(r *rng, id string) {
	indirect := []int{0, 1, 3}[r.intn(3)]
	tcpMode := []string{"off", "off", "fail", "ok", "wrongseq", "late"}[r.intn(6)]
	awareMax := []int{8, 8, 2, 1}[r.intn(4)]
	n, err := newC19(indirect, tcpMode, awareMax)
	if err != nil {
		return
	}
	var lateAt time.Time
	if tcpMode != "off" {
		n.tr.dial = tcpDial(tcpMode, &lateAt)
	}
	m := n.m
	ml.VerifAliveNode(m, 1, "T", []byte{10, 0, 0, 1}, 7946, nil, []uint8{1, 5, 2, 0, 0, 0}, nil, false)
	nrel := r.intn(5)
	relPmax := map[string]int{}
	for i := 0; i < nrel; i++ {
		pm := []uint8{3, 5, 5}[r.intn(3)]
		ml.VerifAliveNode(m, 1, fmt.Sprintf("R%d", i), []byte{10, 0, 1, byte(i + 1)}, 7946, nil, []uint8{1, pm, 2, 0, 0, 0}, nil, false)
		relPmax[fmt.Sprintf("10.0.1.%d:7946", i+1)] = int(pm)
	}
	s0 := 0
	for k := r.intn(4); k > 0; k-- {
		s0 = ml.VerifApplyDelta(m, 1)
	}
	ml.VerifResetBroadcasts(m)
	n.tr.take()
	t0 := time.Now()
	lateAt = t0.Add(time.Duration(s0+1)*time.Second + 100*time.Millisecond)
	done := make(chan struct{})
	go func() { ml.VerifProbeNodeByName(m, "T"); close(done) }()
	synctest.Wait()
	pk, _ := n.tr.takeTo()
	seq := uint32(0)
	if len(pk) > 0 && len(pk[0]) > 1 {
		seq, _, _ = ml.VerifDecodePing(pk[0][1:])
	}
	// script of injected acks / nacks
	dl := time.Duration(s0+1) * time.Second
	nev := r.intn(6)
	type ev struct {
		t    time.Duration
		kind string
		mine bool
	}
	var evs []ev
	for i := 0; i < nev; i++ {
		var t time.Duration
		switch r.intn(5) {
		case 0:
			t = time.Duration(1+r.intn(498)) * time.Millisecond // before the probe timeout
		case 1:
			t = 500*time.Millisecond + time.Duration(1+r.intn(int(dl/time.Millisecond)-502))*time.Millisecond // before the deadline
		case 2:
			t = dl - time.Duration(1+r.intn(3))*time.Millisecond
		case 3:
			t = dl + time.Duration(1+r.intn(3))*time.Millisecond
		default:
			t = dl + time.Duration(1+r.intn(2000))*time.Millisecond
		}
		kind := []string{"ack", "nack", "nack"}[r.intn(3)]
		evs = append(evs, ev{t, kind, r.chance(2, 3)})
	}
	sort.Slice(evs, func(i, j int) bool { return evs[i].t < evs[j].t })
	// no two events at the same instant, none exactly on a boundary
	var clean []ev
	for i, e := range evs {
		if i > 0 && e.t == evs[i-1].t {
			continue
		}
		if e.t == dl || e.t == 500*time.Millisecond {
			continue
		}
		clean = append(clean, e)
	}
	evs = clean
	var toks []string
	for _, e := range evs {
		time.Sleep(time.Until(t0.Add(e.t)))
		sq := seq
		if !e.mine {
			sq = seq + 1000 + uint32(r.intn(5))
		}
		var msg []byte
		if e.kind == "ack" {
			msg, _ = ml.VerifEncode(2, sq, "", nil)
		} else {
			msg, _ = ml.VerifEncode(11, sq, "", nil)
		}
		ml.VerifIngestPacket(m, msg, fromAddr, time.Now())
		synctest.Wait()
		toks = append(toks, fmt.Sprintf("%d:%s:%d", int64(e.t), e.kind, b2i(e.mine)))
	}
	<-done
	took := time.Since(t0)
	time.Sleep(5 * time.Second)
	synctest.Wait()
	snap := ml.VerifSnapshotState(m)
	susp := 0
	for _, nd := range snap.Nodes {
		if nd.Name == "T" && nd.State != ml.StateAlive {
			susp = 1
		}
	}
	// what went out after the first ping: indirect pings by destination
	pk2, to2 := n.tr.takeTo()
	expNacks, nInd := 0, 0
	for i, p := range pk2 {
		if len(p) > 0 && p[0] == 1 { // indirectPingMsg
			nInd++
			if relPmax[to2[i]] >= 4 {
				expNacks++
			}
		}
	}
	tk := "-"
	if len(toks) > 0 {
		tk = strings.Join(toks, ";")
	}
	// who signs the accusation that a failed probe queues for gossip (the original accuser never counts as a confirmer)
	accuser := "-"
	for _, b := range ml.VerifBroadcasts(m) {
		if b.Type == 3 && b.Node == "T" {
			accuser = b.From
		}
	}
	emit(c19Prop+" probe id=%s indirect=%d tcp=%s amax=%d s0=%d relays=%d evs=%s suspected=%d score=%d handlers=%d nind=%d expnacks=%d took=%d accuser=%s",
		id, indirect, tcpMode, awareMax, s0, nrel, tk, susp, snap.Score, len(snap.AckHandlers), nInd, expNacks, int64(took), accuser)
	m.Shutdown()
}

// c19SendErr: the transport refuses the direct ping (a local error, or one that blames the remote
// side); nothing is acknowledged. The score may rise, never fall; a local refusal changes nothing.
func c19SendErr(r *rng, id string) {
	indirect := []int{0, 1, 3}[r.intn(3)]
	awareMax := []int{8, 8, 4, 2}[r.intn(4)]
	n, err := newC19(indirect, "off", awareMax)
	if err != nil {
		return
	}
	m := n.m
	ml.VerifAliveNode(m, 1, "T", []byte{10, 0, 0, 1}, 7946, nil, []uint8{1, 5, 2, 0, 0, 0}, nil, false)
	nrel := r.intn(4)
	relPmax := map[string]int{}
	for i := 0; i < nrel; i++ {
		pm := []uint8{3, 5, 5}[r.intn(3)]
		ml.VerifAliveNode(m, 1, fmt.Sprintf("R%d", i), []byte{10, 0, 1, byte(i + 1)}, 7946, nil, []uint8{1, pm, 2, 0, 0, 0}, nil, false)
		relPmax[fmt.Sprintf("10.0.1.%d:7946", i+1)] = int(pm)
	}
	s0 := 0
	for k := r.intn(4); k > 0; k-- {
		s0 = ml.VerifApplyDelta(m, 1)
	}
	pre := r.chance(1, 3)
	if pre {
		// the target is already suspected: the ping travels in a compound message with the accusation
		ml.VerifSuspectNode(m, 1, "T", "R9")
	}
	ml.VerifResetBroadcasts(m)
	n.tr.take()
	errK := []string{"local", "remote"}[r.intn(2)]
	n.tr.failTo = "10.0.0.1:7946"
	n.tr.failOp = errK == "remote"
	done := make(chan struct{})
	go func() { ml.VerifProbeNodeByName(m, "T"); close(done) }()
	<-done
	time.Sleep(6 * time.Second)
	synctest.Wait()
	snap := ml.VerifSnapshotState(m)
	susp := 0
	for _, nd := range snap.Nodes {
		if nd.Name == "T" && nd.State != ml.StateAlive {
			susp = 1
		}
	}
	_ = susp
	pk2, to2 := n.tr.takeTo()
	expNacks := 0
	for i, p := range pk2 {
		if len(p) > 0 && p[0] == 1 && relPmax[to2[i]] >= 4 {
			expNacks++
		}
	}
	emit("C19 senderr id=%s err=%s pre=%d indirect=%d amax=%d s0=%d relays=%d suspected=%d score=%d handlers=%d expnacks=%d",
		id, errK, b2i(pre), indirect, awareMax, s0, nrel, susp, snap.Score, len(snap.AckHandlers), expNacks)
	m.Shutdown()
}

// c19Fresh: probes started at the same time on several goroutines (the probe ticker, Ping(), relay
// duty) are registered under distinct sequence numbers.
func c19Fresh(r *rng, id string) {
	n, err := newC19(0, "off", 8)
	if err != nil {
		return
	}
	defer n.m.Shutdown()
	workers := 8 + r.intn(9)
	per := 20000
	seen := make([][]uint32, workers)
	var wg sync.WaitGroup
	start := make(chan struct{})
	for w := 0; w < workers; w++ {
		wg.Add(1)
		go func(w int) {
			defer wg.Done()
			out := make([]uint32, 0, per)
			<-start
			for i := 0; i < per; i++ {
				out = append(out, ml.VerifNextSeqNo(n.m))
			}
			seen[w] = out
		}(w)
	}
	close(start)
	wg.Wait()
	all := map[uint32]int{}
	dups := 0
	first := uint32(0)
	for _, s := range seen {
		for _, v := range s {
			all[v]++
			if all[v] == 2 {
				if dups == 0 {
					first = v
				}
				dups++
			}
		}
	}
	emit("C19 fresh id=%s workers=%d per=%d distinct=%d dups=%d first=%d", id, workers, per, len(all), dups, first)
}

// c19Ping: the Ping API (one direct ping, answered only by an acknowledgement with its own sequence number
// before the probe timeout - or before the pending record expires, whichever comes first), for probe
// intervals below, at and above the probe timeout.
func c19Ping(r *rng, id string) {
	interval := []time.Duration{40 * time.Millisecond, 400 * time.Millisecond, time.Second, 100 * time.Millisecond}[r.intn(4)]
	timeout := []time.Duration{400 * time.Millisecond, 100 * time.Millisecond, 500 * time.Millisecond}[r.intn(3)]
	n, err := newC19x(1, "off", 8, interval, timeout)
	if err != nil {
		return
	}
	m := n.m
	ml.VerifResetBroadcasts(m)
	n.tr.take()
	t0 := time.Now()
	res := "?"
	done := make(chan struct{})
	go func() {
		_, err := m.Ping("T", &net.UDPAddr{IP: net.IPv4(10, 0, 0, 1), Port: 7946})
		if err != nil {
			res = "err"
		} else {
			res = "ok"
		}
		close(done)
	}()
	synctest.Wait()
	seq := uint32(0)
	for _, p := range n.tr.take() {
		if len(p) > 1 && p[0] == 0 {
			seq, _, _ = ml.VerifDecodePing(p[1:])
		}
	}
	limit := interval
	if timeout < limit {
		limit = timeout
	}
	var toks []string
	nev := r.intn(3)
	var ts []time.Duration
	for i := 0; i < nev; i++ {
		switch r.intn(3) {
		case 0:
			ts = append(ts, time.Duration(1+r.intn(int(limit/time.Millisecond)-1))*time.Millisecond-500*time.Microsecond)
		case 1:
			ts = append(ts, limit+time.Duration(1+r.intn(50))*time.Millisecond)
		default:
			ts = append(ts, time.Duration(1+r.intn(1200))*time.Millisecond+300*time.Microsecond)
		}
	}
	sort.Slice(ts, func(i, j int) bool { return ts[i] < ts[j] })
	for i, t := range ts {
		if i > 0 && t == ts[i-1] {
			continue
		}
		time.Sleep(time.Until(t0.Add(t)))
		mine := r.chance(2, 3)
		sq := seq
		if !mine {
			sq = seq + 500
		}
		ack, _ := ml.VerifEncode(2, sq, "", nil)
		ml.VerifIngestPacket(m, ack, fromAddr, time.Now())
		synctest.Wait()
		toks = append(toks, fmt.Sprintf("%d:ack:%d", int64(t), b2i(mine)))
	}
	<-done
	took := time.Since(t0)
	time.Sleep(3 * time.Second)
	synctest.Wait()
	tk := "-"
	if len(toks) > 0 {
		tk = strings.Join(toks, ";")
	}
	emit("C19 ping id=%s interval=%d timeout=%d evs=%s res=%s took=%d handlers=%d", id, int64(interval), int64(timeout), tk, res, int64(took), ml.VerifNumAckHandlers(m))
	m.Shutdown()
}

func c19Relay(r *rng, id string) {
	n, err := newC19(3, "off", 8)
	if err != nil {
		return
	}
	m := n.m
	nack := r.chance(2, 3)
	reqSeq := uint32(70 + r.intn(20))
	ml.VerifResetBroadcasts(m)
	mode := []string{"never", "intime", "late", "foreign", "dup", "sendfail"}[r.intn(6)]
	if mode == "sendfail" {
		n.tr.failTo = "10.0.0.1:7946"
	}
	req := ml.VerifEncodeIndirectPing(reqSeq, []byte{10, 0, 0, 1}, 7946, "T", nack, []byte{10, 0, 0, 5}, 7946, "Q")
	n.tr.take()
	t0 := time.Now()
	ml.VerifIngestPacket(m, req, fromAddr, time.Now())
	synctest.Wait()
	pk, to := n.tr.takeTo()
	local := uint32(0)
	pinged := 0
	for i, p := range pk {
		if len(p) > 1 && p[0] == 0 && to[i] == "10.0.0.1:7946" {
			local, _, _ = ml.VerifDecodePing(p[1:])
			pinged++
		}
	}
	ackAt := int64(-1)
	inject := func(sq uint32) {
		msg, _ := ml.VerifEncode(2, sq, "", nil)
		ml.VerifIngestPacket(m, msg, fromAddr, time.Now())
		synctest.Wait()
	}
	switch mode {
	case "intime", "dup":
		d := time.Duration(1+r.intn(498)) * time.Millisecond
		time.Sleep(d)
		ackAt = int64(time.Since(t0))
		inject(local)
		if mode == "dup" {
			time.Sleep(time.Millisecond)
			inject(local)
		}
	case "late":
		d := 500*time.Millisecond + time.Duration(1+r.intn(800))*time.Millisecond
		time.Sleep(d)
		ackAt = int64(time.Since(t0))
		inject(local)
	case "foreign":
		time.Sleep(time.Duration(1+r.intn(400)) * time.Millisecond)
		inject(local + 999)
	}
	time.Sleep(3 * time.Second)
	synctest.Wait()
	pk2, to2 := n.tr.takeTo()
	acks, nacks, other := 0, 0, 0
	for i, p := range pk2 {
		if to2[i] != "10.0.0.5:7946" || len(p) < 2 {
			continue
		}
		sq, ok := ml.VerifDecodeSeq(p[0], p[1:])
		switch {
		case p[0] == 2 && ok && sq == reqSeq:
			acks++
		case p[0] == 11 && ok && sq == reqSeq:
			nacks++
		default:
			other++
		}
	}
	fresh := b2i((local != reqSeq && pinged == 1) || mode == "sendfail")
	emit("C19 relay id=%s nack=%d mode=%s ackat=%d acks=%d nacks=%d other=%d fresh=%d handlers=%d", id, b2i(nack), mode, ackAt, acks, nacks, other, fresh, ml.VerifNumAckHandlers(m))
	m.Shutdown()
}

func c19Score(r *rng, id string) {
	amax := []int{1, 2, 3, 8}[r.intn(4)]
	n, err := newC19(1, "off", amax)
	if err != nil {
		return
	}
	var ds, ss []string
	for i := 0; i < 12; i++ {
		d := []int{-3, -1, -1, 0, 1, 1, 2, 9}[r.intn(8)]
		ds = append(ds, fmt.Sprint(d))
		ss = append(ss, fmt.Sprint(ml.VerifApplyDelta(n.m, d)))
	}
	emit("C19 score id=%s amax=%d deltas=%s scores=%s", id, amax, strings.Join(ds, ","), strings.Join(ss, ","))
	n.m.Shutdown()
}

// (d) the pending-acknowledgement table as a state machine: registrations (probe channels and relay
// handlers), acks and nacks for pending, consumed, expired and foreign sequence numbers, and the clock;
// after every operation the set of pending numbers and what the handlers were told are printed.
func c19Table(r *rng, id string) {
	n, err := newC19(1, "off", 8)
	if err != nil {
		return
	}
	m := n.m
	defer m.Shutdown()
	type reg struct {
		seq   uint32
		probe *ml.VerifProbeCh
		relay *int32
		seen  int32
	}
	var regs []*reg
	next := uint32(100 + r.intn(50))
	var toks []string
	nops := 5 + r.intn(25)
	for i := 0; i < nops; i++ {
		tok := ""
		pick := func() uint32 {
			if len(regs) > 0 && r.chance(3, 4) {
				return regs[r.intn(len(regs))].seq
			}
			return next + uint32(1000+r.intn(5)) // never registered
		}
		switch k := r.intn(10); {
		case k < 3:
			next++
			tm := time.Duration(100*(1+r.intn(9))) * time.Millisecond
			g := &reg{seq: next}
			if r.chance(2, 3) {
				g.probe = ml.VerifSetProbeChannels(m, next, tm)
				tok = fmt.Sprintf("set:%d:%d:p", next, tm.Milliseconds())
			} else {
				g.relay = ml.VerifSetAckHandler(m, next, tm)
				tok = fmt.Sprintf("set:%d:%d:r", next, tm.Milliseconds())
			}
			regs = append(regs, g)
		case k < 5:
			sq := pick()
			tok = fmt.Sprintf("ack:%d", sq)
			func() {
				defer func() {
					if rec := recover(); rec != nil {
						tok += "!panic"
					}
				}()
				ml.VerifInvokeAck(m, sq)
			}()
		case k < 7:
			sq := pick()
			tok = fmt.Sprintf("nack:%d", sq)
			func() {
				defer func() {
					if rec := recover(); rec != nil {
						tok += "!panic"
					}
				}()
				ml.VerifInvokeNack(m, sq)
			}()
		default:
			d := time.Duration(50*(1+r.intn(12))) * time.Millisecond
			tok = fmt.Sprintf("tick:%d", d.Milliseconds())
			time.Sleep(d)
		}
		synctest.Wait()
		var evs []string
		for _, g := range regs {
			if g.probe != nil {
				a, t, k := g.probe.Drain()
				for ; a > 0; a-- {
					evs = append(evs, fmt.Sprintf("a%d", g.seq))
				}
				for ; t > 0; t-- {
					evs = append(evs, fmt.Sprintf("t%d", g.seq))
				}
				for ; k > 0; k-- {
					evs = append(evs, fmt.Sprintf("n%d", g.seq))
				}
			} else {
				c := atomic.LoadInt32(g.relay)
				for ; g.seen < c; g.seen++ {
					evs = append(evs, fmt.Sprintf("a%d", g.seq))
				}
			}
		}
		var pend []string
		for _, sq := range ml.VerifSnapshotState(m).AckHandlers {
			pend = append(pend, fmt.Sprint(sq))
		}
		sort.Strings(pend)
		sort.Strings(evs)
		j := func(x []string) string {
			if len(x) == 0 {
				return "-"
			}
			return strings.Join(x, ".")
		}
		toks = append(toks, fmt.Sprintf("%s>%s|%s", tok, j(pend), j(evs)))
	}
	emit("C19 tbl id=%s ops=%s", id, strings.Join(toks, ";"))
}

func TestC19(t *testing.T) {
	runSel(t, "C19", 940)
	forCases(20, 198, "d", func(i int, r *rng, id string) { c19DupAck(r, id) })
	n := envInt("VERIF_N", 1500)
	if thorough() {
		n = envInt("VERIF_N", 60000)
	}
	forCases(n, 191, "p", func(i int, r *rng, id string) {
		probeBubble(t, id, func() { c19Probe(r, id) })
	})
	forCases(n/6, 195, "e", func(i int, r *rng, id string) {
		synctest.Test(t, func(t *testing.T) { c19SendErr(r, id) })
	})
	forCases(n/300+3, 196, "f", func(i int, r *rng, id string) { c19Fresh(r, id) })
	forCases(n/8, 197, "g", func(i int, r *rng, id string) {
		synctest.Test(t, func(t *testing.T) { c19Ping(r, id) })
	})
	forCases(n/2, 192, "r", func(i int, r *rng, id string) {
		synctest.Test(t, func(t *testing.T) { c19Relay(r, id) })
	})
	forCases(n/5, 193, "s", func(i int, r *rng, id string) {
		synctest.Test(t, func(t *testing.T) { c19Score(r, id) })
	})
	forCases(n/3, 194, "t", func(i int, r *rng, id string) {
		synctest.Test(t, func(t *testing.T) { c19Table(r, id) })
	})
}

// c19DupAck: duplicates of an acknowledgement arrive while the handler of the first one is still running (a relay
// forwarding the success): the number was answered, so the duplicates have no effect and the record is gone.
func c19DupAck(r *rng, id string) {
	n, err := newC19(0, "off", 8)
	if err != nil {
		return
	}
	defer n.m.Shutdown()
	seq := uint32(100 + r.intn(100000))
	var calls int32
	entered := make(chan struct{}, 16)
	release := make(chan struct{})
	ml.VerifSetAckHandlerFn(n.m, seq, func() {
		atomic.AddInt32(&calls, 1)
		entered <- struct{}{}
		<-release
	}, time.Minute)
	var wg sync.WaitGroup
	wg.Add(1)
	go func() { defer wg.Done(); ml.VerifInvokeAck(n.m, seq) }()
	select {
	case <-entered:
	case <-time.After(5 * time.Second):
		emit("C19 dupack id=%s dups=0 calls=0 pending=-1", id)
		close(release)
		return
	}
	dups := 1 + r.intn(3)
	for i := 0; i < dups; i++ {
		wg.Add(1)
		go func() { defer wg.Done(); ml.VerifInvokeAck(n.m, seq) }()
	}
	time.Sleep(30 * time.Millisecond)
	pending := ml.VerifNumAckHandlers(n.m)
	close(release)
	wg.Wait()
	emit("C19 dupack id=%s dups=%d calls=%d pending=%d", id, dups, atomic.LoadInt32(&calls), pending)
}
