package harness

// Member selection (util.go: moveDeadNodes, shuffleNodes, kRandomNodes) against Swim/Model/Select.lean.
// Random choices are made reproducible by seeding the package-level generator the library uses
// (GODEBUG=randseednop=0, set by ./check): the values randomOffset will return and the permutation
// shuffleNodes will produce are observed first, then the generator is seeded again and the function
// under test runs on the same stream.

import (
	"fmt"
	"math/rand"
	"net"
	"strings"
	"testing"
	"testing/synctest"
	"time"

	ml "github.com/hashicorp/memberlist"
)

const selWindow = 30 * time.Second

func selGen(r *rng, n int) []ml.VerifSelNode {
	out := make([]ml.VerifSelNode, n)
	for i := range out {
		st := ml.NodeStateType(r.intn(4))
		if r.chance(1, 3) {
			st = ml.StateAlive
		}
		// ages at and around the window: "<=" keeps the record
		age := []time.Duration{0, time.Second, selWindow - time.Nanosecond, selWindow, selWindow + time.Nanosecond, 2 * selWindow, time.Hour}[r.intn(7)]
		out[i] = ml.VerifSelNode{Name: fmt.Sprintf("n%d", i), State: st, Age: age}
	}
	return out
}

func selDesc(in []ml.VerifSelNode, excl map[string]bool) string {
	parts := make([]string, len(in))
	for i, d := range in {
		parts[i] = fmt.Sprintf("%s/%d/%d/%d", d.Name, int(d.State), b2i(d.Age > selWindow), b2i(excl[d.Name]))
	}
	if len(parts) == 0 {
		return "-"
	}
	return strings.Join(parts, ",")
}

func joinOr(l []string) string {
	if len(l) == 0 {
		return "-"
	}
	return strings.Join(l, ",")
}

// selMoveDead: one run of moveDeadNodes (virtual time, so that ages at the window are exact).
func selMoveDead(prop string, r *rng, id string) {
	n := []int{0, 1, 2, 3, 5, 8, 13, 40}[r.intn(8)]
	in := selGen(r, n)
	out, idx := ml.VerifMoveDeadNodes(in, selWindow)
	emit("%s movedead id=%s nodes=%s out=%s ret=%d", prop, id, selDesc(in, nil), joinOr(out), idx)
}

// selKRandom: one run of kRandomNodes on a seeded generator.
func selKRandom(prop string, r *rng, id string) {
	k := []int{0, 1, 1, 2, 3, 3, 4, 6}[r.intn(8)]
	n := r.intn(3*k + 6)
	if r.chance(1, 5) {
		n = 3 * k // the boundary between the two loops
	}
	in := selGen(r, n)
	var excl map[string]bool
	if !r.chance(1, 8) {
		excl = map[string]bool{}
		den := 1 + r.intn(4)
		for _, d := range in {
			if r.chance(1, den) {
				excl[d.Name] = true
			}
		}
	}
	sd := int64(r.next() >> 1)
	rand.Seed(sd)
	offs := make([]string, 3*n)
	for i := range offs {
		offs[i] = fmt.Sprint(ml.VerifRandomOffset(n))
	}
	rand.Seed(sd)
	shuf := ml.VerifShuffleNodes(in)
	rand.Seed(sd)
	out, after := ml.VerifKRandomNodes(k, in, excl)
	same := 1
	for i := range in {
		if after[i] != in[i].Name {
			same = 0
		}
	}
	emit("%s krand id=%s k=%d nodes=%s shuf=%s offs=%s out=%s inputkept=%d", prop, id, k, selDesc(in, excl), joinOr(shuf), joinOr(offs), joinOr(out), same)
}

// selCallers: the exclusion rules of gossip(), pushPull() and probeNode() observed on a real node: which
// members receive a gossip packet, a push/pull dial, an indirect-ping request.
func selCallers(prop string, r *rng, id string) {
	indirect := 1 + r.intn(3)
	n, err := newC19(indirect, "off", 8)
	if err != nil {
		return
	}
	m := n.m
	defer m.Shutdown()
	var dialed []string
	n.tr.dial = func(addr string) (net.Conn, error) {
		dialed = append(dialed, addr)
		return nil, fmt.Errorf("connection refused")
	}
	cnt := r.intn(12)
	addrOf := map[string]string{"10.0.0.9:7946": "S"}
	for i := 0; i < cnt; i++ {
		name := fmt.Sprintf("m%d", i)
		addr := fmt.Sprintf("10.0.3.%d:7946", i+1)
		addrOf[addr] = name
		ml.VerifAliveNode(m, 1, name, []byte{10, 0, 3, byte(i + 1)}, 7946, nil, []uint8{1, 5, 2, 0, 0, 0}, nil, false)
		st := r.intn(4)
		if r.chance(1, 3) {
			st = 0
		}
		switch st {
		case 1:
			ml.VerifSuspectNode(m, 1, name, "x")
		case 2:
			ml.VerifDeadNode(m, 1, name, "x")
		case 3:
			ml.VerifDeadNode(m, 1, name, name)
		}
		// the window of DefaultLANConfig: GossipToTheDeadTime = 30 s; "<=" keeps gossiping
		age := []time.Duration{0, 30 * time.Second, 30*time.Second + time.Nanosecond, time.Hour}[r.intn(4)]
		ml.VerifSetStateChange(m, name, time.Now().Add(-age))
	}
	synctest.Wait()
	// the member list in its real order and with the states the node really holds
	s := ml.VerifSnapshotState(m)
	var parts []string
	for _, nd := range s.Nodes {
		old := time.Since(nd.StateChange) > 30*time.Second
		parts = append(parts, fmt.Sprintf("%s/%d/%d/0", nd.Name, int(nd.State), b2i(old)))
	}
	names := func(to []string) string {
		var l []string
		for _, a := range to {
			if nm, ok := addrOf[a]; ok {
				l = append(l, nm)
			} else {
				l = append(l, "?"+a)
			}
		}
		return joinOr(l)
	}
	what := r.intn(4)
	switch what {
	case 3:
		// a reaping pass: what resetNodes keeps (its final shuffle makes the order irrelevant); sometimes the node has left
		if r.chance(1, 3) {
			ml.VerifSetRecord(m, "S", 1, ml.StateLeft)
			ml.VerifSetStateChange(m, "S", time.Now().Add(-time.Hour))
			s = ml.VerifSnapshotState(m)
			parts = parts[:0]
			for _, nd := range s.Nodes {
				old := time.Since(nd.StateChange) > 30*time.Second
				parts = append(parts, fmt.Sprintf("%s/%d/%d/0", nd.Name, int(nd.State), b2i(old)))
			}
		}
		ml.VerifResetNodes(m)
		var kept []string
		for _, nd := range ml.VerifSnapshotState(m).Nodes {
			kept = append(kept, nd.Name)
		}
		emit("%s resetsel id=%s nodes=%s out=%s", prop, id, strings.Join(parts, ","), joinOr(kept))
	case 0:
		// gossip: enough queued broadcasts for every target
		ml.VerifResetBroadcasts(m)
		for i := 0; i < 6; i++ {
			ml.VerifQueueBroadcast(m, fmt.Sprintf("b%d", i), []byte{8, 1, 2, byte(i)})
		}
		n.tr.take()
		ml.VerifGossip(m)
		_, to := n.tr.takeTo()
		emit("%s gossipsel id=%s k=3 nodes=%s out=%s", prop, id, strings.Join(parts, ","), names(to))
	case 1:
		ml.VerifPushPull(m)
		synctest.Wait()
		emit("%s ppsel id=%s k=1 nodes=%s out=%s", prop, id, strings.Join(parts, ","), names(dialed))
	default:
		if cnt == 0 {
			return
		}
		target := fmt.Sprintf("m%d", r.intn(cnt))
		ml.VerifResetBroadcasts(m)
		n.tr.take()
		done := make(chan struct{})
		go func() { ml.VerifProbeNodeByName(m, target); close(done) }()
		synctest.Wait()
		n.tr.take() // the direct ping
		time.Sleep(501 * time.Millisecond)
		synctest.Wait()
		pk, to := n.tr.takeTo()
		var relays []string
		for i, p := range pk {
			if len(p) > 0 && p[0] == 1 { // indirectPingMsg
				relays = append(relays, to[i])
			}
		}
		<-done
		synctest.Wait()
		emit("%s relaysel id=%s k=%d target=%s nodes=%s out=%s", prop, id, indirect, target, strings.Join(parts, ","), names(relays))
	}
}

func runSel(t *testing.T, prop string, stream uint64) {
	n := envInt("VERIF_N", 600)
	if thorough() {
		n = envInt("VERIF_N", 40000)
	}
	forCases(n, stream, "md", func(i int, r *rng, id string) {
		synctest.Test(t, func(t *testing.T) { selMoveDead(prop, r, id) })
	})
	forCases(n, stream+1, "kr", func(i int, r *rng, id string) {
		synctest.Test(t, func(t *testing.T) { selKRandom(prop, r, id) })
	})
	forCases(n/3, stream+2, "sc", func(i int, r *rng, id string) {
		synctest.Test(t, func(t *testing.T) { selCallers(prop, r, id) })
	})
}
