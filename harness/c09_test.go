package harness

import (
	"fmt"
	"io"
	"log"
	"net"
	"sort"
	"strings"
	"sync"
	"testing"
	"time"

	ml "github.com/hashicorp/memberlist"
)

func vsnOf(r *rng) []uint8 {
	pick := func() uint8 { return []uint8{0, 1, 2, 2, 3, 5, 255}[r.intn(7)] }
	switch r.intn(8) {
	case 0:
		return nil
	case 1:
		return []uint8{pick(), pick(), pick()}
	case 2:
		return []uint8{pick(), pick(), pick(), pick(), pick()}
	}
	return []uint8{pick(), pick(), pick(), pick(), pick(), pick()}
}

func goodVsn(r *rng) []uint8 {
	// version vectors aliveNode admits (pmin>=1, pmax>=pmin)
	pmin := uint8(1 + r.intn(2))
	pmax := pmin + uint8(r.intn(4))
	return []uint8{pmin, pmax, uint8([]int{int(pmin), int(pmax), 2, 0, 9}[r.intn(5)]), uint8(r.intn(3)), uint8(r.intn(4)), uint8(r.intn(4))}
}

// (a) verifyProtocol on boundary-biased version tables
func c09Vp(r *rng, id string) {
	mn, err := newMnode(mcfg{awareMax: 8, suspMult: 4})
	if err != nil {
		return
	}
	defer mn.m.Shutdown()
	names := []string{"n1", "n2", "n3", "n4"}
	nl := r.intn(4)
	tame := r.chance(1, 2) // half of the tables are drawn close to compatibility
	for i := 0; i < nl; i++ {
		v := goodVsn(r)
		if tame {
			v = []uint8{1, uint8(3 + r.intn(3)), uint8(1 + r.intn(3)), 0, uint8(r.intn(2)), 0}
		}
		if r.chance(1, 6) {
			v = nil // record without version information (all zero)
		}
		ml.VerifAliveNode(mn.m, 1, names[i], []byte{10, 0, 0, byte(i + 1)}, 7946, nil, v, nil, false)
		switch r.intn(4) {
		case 0:
			ml.VerifDeadNode(mn.m, 1, names[i], "x")
		case 1:
			ml.VerifSuspectNode(mn.m, 1, names[i], "x")
		}
	}
	var loc []string
	for _, n := range ml.VerifSnapshotState(mn.m).Nodes {
		loc = append(loc, fmt.Sprintf("%s/%s", stLetter[n.State], vsnStr(n.Vsn[:])))
	}
	nr := r.intn(4)
	var rem []string
	var rs []ml.VerifPushNodeState
	for i := 0; i < nr; i++ {
		st := []ml.NodeStateType{ml.StateAlive, ml.StateAlive, ml.StateSuspect, ml.StateDead, ml.StateLeft}[r.intn(5)]
		v := vsnOf(r)
		if r.chance(1, 2) {
			v = []uint8{1, 5, uint8([]int{2, 2, 1, 5, 6, 0}[r.intn(6)]), 0, uint8(r.intn(3)), uint8(r.intn(3))}
		}
		if tame {
			v = []uint8{uint8(1 + r.intn(2)), uint8(3 + r.intn(3)), uint8([]int{2, 2, 3, 1, 4}[r.intn(5)]), 0, uint8(r.intn(2)), 0}
			if r.chance(1, 8) {
				v = v[:r.intn(6)]
			}
		}
		rem = append(rem, fmt.Sprintf("%s/%s", stLetter[st], vsnStr(v)))
		rs = append(rs, ml.VerifPushNodeState{Name: fmt.Sprintf("r%d", i), Addr: []byte{10, 1, 0, byte(i)}, Port: 7946, Incarnation: 1, State: st, Vsn: v})
	}
	res := "ok"
	func() {
		defer func() {
			if rec := recover(); rec != nil {
				res = "panic"
			}
		}()
		if err := ml.VerifVerifyProtocol(mn.m, rs); err != nil {
			res = "err"
		}
	}()
	j := func(x []string) string {
		if len(x) == 0 {
			return "-"
		}
		return strings.Join(x, ",")
	}
	emit("C09 vp id=%s local=%s remote=%s res=%s", id, j(loc), j(rem), res)
}

// (b) admission: version error or merge-delegate veto leaves everything untouched
func c09Adm(r *rng, id string) {
	mn, err := newMnode(mcfg{awareMax: 8, suspMult: 4, mergeDel: true})
	if err != nil {
		return
	}
	defer mn.m.Shutdown()
	ml.VerifAliveNode(mn.m, 1, "n1", []byte{10, 0, 0, 1}, 7946, nil, []uint8{1, 5, 2, 0, 0, 0}, nil, false)
	mn.observe(time.Now())
	join := r.chance(1, 2)
	veto := r.chance(1, 2)
	bad := r.chance(1, 2)
	pcur := uint8(2)
	if bad {
		pcur = []uint8{0, 6, 9}[r.intn(3)]
	}
	st := []ml.NodeStateType{ml.StateAlive, ml.StateDead, ml.StateLeft, ml.StateSuspect}[r.intn(4)]
	rs := []ml.VerifPushNodeState{
		{Name: "r1", Addr: []byte{10, 0, 0, 2}, Port: 7946, Incarnation: 3, State: ml.StateAlive, Vsn: []uint8{1, 5, 2, 0, 0, 0}},
		{Name: "n1", Addr: []byte{10, 0, 0, 1}, Port: 7946, Incarnation: 4, State: ml.StateDead, Vsn: []uint8{1, 5, 2, 0, 0, 0}},
		{Name: "r2", Addr: []byte{10, 0, 0, 7}, Port: 7946, Incarnation: 1, State: st, Vsn: []uint8{1, 5, pcur, 0, 0, 0}},
	}
	mn.mdel.veto = veto
	before := mn.observe(time.Now())
	res := "ok"
	func() {
		defer func() {
			if rec := recover(); rec != nil {
				res = "panic"
			}
		}()
		if err := ml.VerifMergeRemoteState(mn.m, join, rs, []byte("user-state")); err != nil {
			res = "err"
		}
	}()
	after := mn.observe(time.Now())
	// observe() clears events/broadcasts: compare the state part and whether anything was emitted
	changed := b2i(strings.Split(before, "|")[0] != strings.Split(after, "|")[0] || !strings.HasSuffix(after, "|-"))
	emit("C09 adm id=%s join=%d veto=%d badvsn=%d badstate=%s res=%s changed=%d delegatecalls=%d usermerges=%d", id, b2i(join), b2i(veto), b2i(bad), stLetter[st], res, changed, mn.mdel.calls, mn.rec.userMerges)
}

// (c) a full join between a host with a history and a fresh joiner, both sides compared with the model
func c09Join(r *rng, id string) {
	hc := mcfg{awareMax: 8, suspMult: 4, name: "H", advertise: "10.0.0.9", reclaim: r.chance(1, 2)}
	jc := mcfg{awareMax: 8, suspMult: 4, name: "J", advertise: "10.0.0.2", reclaim: hc.reclaim}
	host, err := newMnode(hc)
	if err != nil {
		return
	}
	defer host.m.Shutdown()
	joiner, err := newMnode(jc)
	if err != nil {
		return
	}
	defer joiner.m.Shutdown()
	// sometimes the host remembers an earlier life of the joiner's name: another address, a higher
	// incarnation, departed (or failed long ago, with reclaim on) - the restarted joiner comes back at 1
	if r.chance(1, 3) {
		k := uint32(2 + r.intn(3))
		host.apply(mop{kind: 'A', node: "J", inc: k, addr: 1, md: r.intn(3)})
		if r.chance(1, 2) || !hc.reclaim {
			host.apply(mop{kind: 'D', node: "J", inc: k, from: "J"})
		} else {
			host.apply(mop{kind: 'D', node: "J", inc: k, from: "n1"})
			host.apply(mop{kind: 'G', node: "J"})
		}
	}
	// histories on both sides (the joiner may already know some members)
	nt := 0
	for _, mn := range []*mnode{host, joiner} {
		k := r.intn(10)
		if mn == joiner {
			k = r.intn(4)
		}
		for i := 0; i < k; i++ {
			o := randomOp(r, hc, 0, &nt)
			if o.kind == 'U' || o.kind == 'L' || o.kind == 'M' || o.kind == 'F' || o.kind == 'R' {
				continue
			}
			if o.node == "S" {
				continue
			}
			if o.kind == 'A' && (o.addr == 0 || o.addr == 2 || o.addr == 8 || o.addr == 5) {
				o.addr = 1
			}
			if o.kind == 'A' && r.chance(4, 5) {
				o.vsn = []int{0, 0, 1, 6}[r.intn(4)]
			}
			mn.apply(o)
		}
		mn.observe(time.Now())
	}
	hostPre, joinerPre := host.observe(time.Now()), joiner.observe(time.Now())
	a, b := net.Pipe()
	joiner.tr.dialer = func(addr string) (net.Conn, error) { return a, nil }
	done := make(chan struct{})
	go func() { ml.VerifHandleConn(host.m, b); close(done) }()
	res := "ok"
	n, jerr := joiner.m.Join([]string{"H/10.0.0.9:7946"})
	if jerr != nil || n != 1 {
		res = "err"
	}
	<-done
	hostPost, joinerPost := host.observe(time.Now()), joiner.observe(time.Now())
	emit("C09 join id=%s reclaim=%d res=%s hpre=%s jpre=%s hpost=%s jpost=%s", id, b2i(hc.reclaim), res, hostPre, joinerPre, hostPost, joinerPost)
}

// (d) push/pull cut at every byte, both directions; oversize encrypted envelope with a full body
func c09Cut(r *rng, id string) {
	c, enc := randCcfg(r)
	snd, err := newCnode(c)
	if err != nil {
		return
	}
	defer snd.m.Shutdown()
	rc := c
	rc.name = "R"
	rcv, err := newCnode(rc)
	if err != nil {
		return
	}
	defer rcv.m.Shutdown()
	ml.VerifAliveNode(snd.m, 5, "n5", []byte{10, 0, 0, 5}, 7946, []byte("m5"), []uint8{1, 5, 2, 0, 0, 0}, nil, false)
	ml.VerifAliveNode(rcv.m, 6, "n6", []byte{10, 0, 0, 6}, 7946, []byte("m6"), []uint8{1, 5, 2, 0, 0, 0}, nil, false)
	snd.del.state, rcv.del.state = r.bytes(1+r.intn(20)), r.bytes(1+r.intn(20))
	// request bytes (joiner -> host)
	req := captureStream(snd, func() { snd.m.Join([]string{"R/10.0.0.1:7946"}) })
	// response bytes (host -> joiner): what the host writes when given the full request
	hostConn := newFragConn(req, nil)
	ml.VerifHandleConn(rcv.m, hostConn)
	resp := hostConn.written()
	var bads []string
	total := 0
	members := func(m *ml.Memberlist) string {
		var ns []string
		for _, n := range ml.VerifSnapshotState(m).Nodes {
			ns = append(ns, fmt.Sprintf("%s/%d/%d", n.Name, n.Incarnation, n.State))
		}
		return strings.Join(ns, ",")
	}
	// direction 1: the request is cut at every byte (fresh host each time is too slow: the host's view is restored)
	rcv2, err := newCnode(rc)
	if err != nil {
		return
	}
	defer rcv2.m.Shutdown()
	ml.VerifAliveNode(rcv2.m, 6, "n6", []byte{10, 0, 0, 6}, 7946, []byte("m6"), []uint8{1, 5, 2, 0, 0, 0}, nil, false)
	rcv2.del.state = rcv.del.state
	base := members(rcv2.m)
	for cut := 0; cut < len(req); cut++ {
		total++
		fc := newFragConn(req[:cut], randCuts(r, cut))
		pan := false
		func() {
			defer func() {
				if rec := recover(); rec != nil {
					pan = true
				}
			}()
			ml.VerifHandleConn(rcv2.m, fc)
		}()
		if pan {
			bads = append(bads, fmt.Sprintf("panic:req:%d", cut))
		} else if members(rcv2.m) != base || len(rcv2.del.merged) > 0 {
			bads = append(bads, fmt.Sprintf("cut-request-changed-host:%d/%d", cut, len(req)))
			break
		}
	}
	// direction 1b: the same cut requests at a host that has no user Delegate (nobody consumes the
	// user state that the sender ships behind the node records)
	rc3 := rc
	rc3.noDel = true
	rcv3, err := newCnode(rc3)
	if err != nil {
		return
	}
	defer rcv3.m.Shutdown()
	ml.VerifAliveNode(rcv3.m, 6, "n6", []byte{10, 0, 0, 6}, 7946, []byte("m6"), []uint8{1, 5, 2, 0, 0, 0}, nil, false)
	base3 := members(rcv3.m)
	for cut := 0; cut < len(req); cut++ {
		total++
		fc := newFragConn(req[:cut], randCuts(r, cut))
		pan := false
		func() {
			defer func() {
				if rec := recover(); rec != nil {
					pan = true
				}
			}()
			ml.VerifHandleConn(rcv3.m, fc)
		}()
		if pan {
			bads = append(bads, fmt.Sprintf("panic:req-nodelegate:%d", cut))
		} else if members(rcv3.m) != base3 {
			bads = append(bads, fmt.Sprintf("cut-request-changed-host-without-delegate:%d/%d", cut, len(req)))
			break
		}
	}
	// direction 1c: an exchange that fails authentication - the complete request of a peer without a
	// key (compressed or not) at a host that has a key and verifies incoming traffic - changes nothing
	if c.key == nil {
		kc := rc
		kc.key = mkKey(r, 16)
		kc.verifyIn, kc.verifyOut = true, true
		rcv4, err := newCnode(kc)
		if err == nil {
			ml.VerifAliveNode(rcv4.m, 6, "n6", []byte{10, 0, 0, 6}, 7946, []byte("m6"), []uint8{1, 5, 2, 0, 0, 0}, nil, false)
			base4 := members(rcv4.m)
			total++
			func() {
				defer func() {
					if rec := recover(); rec != nil {
						bads = append(bads, "panic:unauthenticated-request")
					}
				}()
				ml.VerifHandleConn(rcv4.m, newFragConn(req, randCuts(r, len(req))))
			}()
			if members(rcv4.m) != base4 || len(rcv4.del.merged) > 0 {
				bads = append(bads, fmt.Sprintf("unauthenticated-exchange-changed-host:comp%d", b2i(c.compress)))
			}
			rcv4.m.Shutdown()
		}
	}
	// direction 2: the response is cut at every byte; the joiner must report an error and change nothing
	snd2, err := newCnode(c)
	if err != nil {
		return
	}
	defer snd2.m.Shutdown()
	ml.VerifAliveNode(snd2.m, 5, "n5", []byte{10, 0, 0, 5}, 7946, []byte("m5"), []uint8{1, 5, 2, 0, 0, 0}, nil, false)
	jbase := members(snd2.m)
	for cut := 0; cut < len(resp); cut++ {
		total++
		fc := newFragConn(resp[:cut], randCuts(r, cut))
		snd2.tr.dial = func(addr string) (net.Conn, error) { return fc, nil }
		n, jerr := snd2.m.Join([]string{"R/10.0.0.1:7946"})
		if n != 0 || jerr == nil {
			bads = append(bads, fmt.Sprintf("join-succeeded-on-cut-response:%d/%d", cut, len(resp)))
			break
		}
		if members(snd2.m) != jbase || len(snd2.del.merged) > 0 {
			bads = append(bads, fmt.Sprintf("cut-response-changed-joiner:%d/%d", cut, len(resp)))
			break
		}
	}
	bs := "-"
	if len(bads) > 0 {
		bs = strings.Join(bads, ",")
	}
	emit("C09 cut id=%s label=%d enc=%s comp=%d reqlen=%d resplen=%d n=%d bad=%s", id, len(c.label), enc, b2i(c.compress), len(req), len(resp), total, bs)
}

func c09Cap(id string) {
	key := []byte("0123456789abcdef")
	rcv, err := newCnode(ccfg{name: "R", key: key, verifyIn: true, verifyOut: true})
	if err != nil {
		return
	}
	defer rcv.m.Shutdown()
	build := func(stateLen int) []byte {
		body := ml.VerifEncodePushPullHeader(0, stateLen, false)
		body = append(body, make([]byte, stateLen)...)
		enc, _ := ml.VerifEncryptLocalState(rcv.m, body, "")
		return enc
	}
	var res []string
	for _, c := range []struct {
		name string
		n    int
	}{{"in-cap-control", 1000}, {"envelope-over-cap", 20*1024*1024 - 10}} {
		rcv.del.merged = nil
		data := build(c.n)
		ml.VerifHandleConn(rcv.m, newFragConn(data, nil))
		merged := len(rcv.del.merged) > 0
		res = append(res, fmt.Sprintf("%s:%d:%d", c.name, len(data)-5, b2i(merged)))
	}
	emit("C09 cap id=%s res=%s", id, strings.Join(res, ","))
}

type vetoMerge struct{ veto bool }

func (v *vetoMerge) NotifyMerge(peers []*ml.Node) error {
	if v.veto {
		return fmt.Errorf("merge vetoed")
	}
	return nil
}

// c09Multi: one Join call naming several hosts, some of which veto the merge (their own delegate, or the
// joiner's): every single exchange is a join and must be mutual or leave both sides as they were.
func c09Multi(r *rng, id string) {
	mk := func(name, addr string, veto bool) (*ml.Memberlist, *nullTransport, *vetoMerge) {
		tr := newNullTransport()
		v := &vetoMerge{veto: veto}
		conf := ml.DefaultLANConfig()
		conf.Name = name
		conf.Transport = tr
		conf.AdvertiseAddr = addr
		conf.AdvertisePort = 7946
		conf.BindPort = 7946
		conf.ProbeInterval = time.Hour
		conf.GossipInterval = 0
		conf.PushPullInterval = 0
		conf.Merge = v
		conf.Logger = log.New(io.Discard, "", 0)
		m, err := ml.Create(conf)
		if err != nil {
			return nil, nil, nil
		}
		return m, tr, v
	}
	nh := 2 + r.intn(2)
	var hosts []*ml.Memberlist
	var vetoes []bool
	byAddr := map[string]*ml.Memberlist{}
	var names []string
	for i := 0; i < nh; i++ {
		veto := r.chance(1, 2)
		m, _, _ := mk(fmt.Sprintf("h%d", i), fmt.Sprintf("10.0.1.%d", i+1), veto)
		if m == nil {
			return
		}
		defer m.Shutdown()
		hosts = append(hosts, m)
		vetoes = append(vetoes, veto)
		byAddr[fmt.Sprintf("10.0.1.%d:7946", i+1)] = m
		names = append(names, fmt.Sprintf("h%d/10.0.1.%d:7946", i, i+1))
	}
	jveto := r.chance(1, 4)
	jm, jtr, _ := mk("J", "10.0.0.2", jveto)
	if jm == nil {
		return
	}
	defer jm.Shutdown()
	var wg sync.WaitGroup
	jtr.dialer = func(addr string) (net.Conn, error) {
		h := byAddr[addr]
		if h == nil {
			return nil, fmt.Errorf("no route")
		}
		a, b := net.Pipe()
		wg.Add(1)
		go func() { defer wg.Done(); ml.VerifHandleConn(h, b) }()
		return a, nil
	}
	n, jerr := jm.Join(names)
	wg.Wait()
	lists := func(m *ml.Memberlist, name string) int {
		for _, nd := range m.Members() {
			if nd.Name == name {
				return 1
			}
		}
		return 0
	}
	var per []string
	for i, h := range hosts {
		per = append(per, fmt.Sprintf("%d%d%d", b2i(vetoes[i]), lists(h, "J"), lists(jm, fmt.Sprintf("h%d", i))))
	}
	emit("C09 multi id=%s jveto=%d hosts=%s joined=%d err=%d", id, b2i(jveto), strings.Join(per, ","), n, b2i(jerr != nil))
}

// c09Busy: a host already serving the maximum number of state exchanges (peers that opened one and then
// stalled) is asked to join by one more node: whatever the host does, the outcome must be mutual - either
// both list each other and Join reports success, or Join fails and neither changed.
func c09Busy(r *rng, id string) {
	rcv, err := newCnode(ccfg{name: "R", tcpTimeout: 5 * time.Second})
	if err != nil {
		return
	}
	defer rcv.m.Shutdown()
	snd, err := newCnode(ccfg{name: "S", tcpTimeout: 5 * time.Second})
	if err != nil {
		return
	}
	defer snd.m.Shutdown()
	limit := int(ml.VerifConsts()["maxPushPullRequests"])
	stalled := limit - r.intn(3) // at the limit, one below, two below
	var ends []net.Conn
	for i := 0; i < stalled; i++ {
		a, b := net.Pipe()
		ends = append(ends, a)
		go ml.VerifHandleConn(rcv.m, b)
		go a.Write([]byte{6}) // pushPullMsg, then silence
	}
	for i := 0; i < 2000 && int(ml.VerifPushPullReq(rcv.m)) < stalled; i++ {
		time.Sleep(time.Millisecond)
	}
	inflight := int(ml.VerifPushPullReq(rcv.m))
	if inflight != stalled {
		// an overloaded machine: not every stalled exchange has been counted yet, the scenario is not the
		// one intended - no verdict
		for _, e := range ends {
			e.Close()
		}
		return
	}
	a, b := net.Pipe()
	snd.tr.dial = func(addr string) (net.Conn, error) { return a, nil }
	done := make(chan struct{})
	go func() { ml.VerifHandleConn(rcv.m, b); close(done) }()
	_, jerr := snd.m.Join([]string{"R/10.0.0.1:7946"})
	select {
	case <-done:
	case <-time.After(8 * time.Second):
	}
	snd.tr.dial = nil
	lists := func(m *ml.Memberlist, name string) int {
		for _, n := range m.Members() {
			if n.Name == name {
				return 1
			}
		}
		return 0
	}
	res := "ok"
	if jerr != nil {
		res = "err"
	}
	emit("C09 busy id=%s limit=%d inflight=%d join=%s hostlists=%d joinerlists=%d", id, limit, inflight, res, lists(rcv.m, "S"), lists(snd.m, "R"))
	for _, e := range ends {
		e.Close()
	}
}

func TestC09(t *testing.T) {
	n := envInt("VERIF_N", 3000)
	if thorough() {
		n = envInt("VERIF_N", 100000)
	}
	forCases(n, 91, "v", func(i int, r *rng, id string) { c09Vp(r, id) })
	forCases(n/10, 92, "a", func(i int, r *rng, id string) { c09Adm(r, id) })
	forCases(n/4, 93, "j", func(i int, r *rng, id string) { c09Join(r, id) })
	forCases(n/150, 94, "c", func(i int, r *rng, id string) { c09Cut(r, id) })
	forCases(1, 95, "p", func(i int, r *rng, id string) { c09Cap(id) })
	forCases(n/10, 96, "f", func(i int, r *rng, id string) { c09Ppf(r, id) })
	forCases(n/10, 97, "n", func(i int, r *rng, id string) { rrsLeg("C09", r, id) })
	forCases(3, 98, "b", func(i int, r *rng, id string) { c09Busy(r, id) })
	forCases(n/30, 99, "m", func(i int, r *rng, id string) { c09Multi(r, id) })
	forCases(n/15, 990, "u", func(i int, r *rng, id string) { c09Auth(r, id) })
	// hearsay only starts suspicion: histories around one member's suspicion, with the timer of a refuted
	// suspicion expiring after the member was accused again
	forCases(n/6, 991, "h", func(i int, r *rng, id string) { timerHistory("C09", r, id) })
}

// c09Auth: a join between a keyed host (label, inbound check checked or delegated) and a joiner that holds the
// same or another key and the same, another or no label. The exchange is admitted only when the stream opens
// under the host's key with the host's own label as associated data; otherwise neither side changes.
func c09Auth(r *rng, id string) {
	labels := []string{"", "blue", "green"}
	hl, jl := labels[r.intn(3)], labels[r.intn(3)]
	if r.chance(1, 2) {
		jl = hl
	}
	skip := r.chance(1, 2)
	k1, k2 := mkKey(r, 16), mkKey(r, 16)
	sameKey := r.chance(2, 3)
	jk := k1
	if !sameKey {
		jk = k2
	}
	host, err := newCnode(ccfg{label: hl, key: k1, verifyIn: true, verifyOut: true, name: "H", skipIn: skip})
	if err != nil {
		return
	}
	defer host.m.Shutdown()
	joiner, err := newCnode(ccfg{label: jl, key: jk, verifyIn: true, verifyOut: true, name: "J"})
	if err != nil {
		return
	}
	defer joiner.m.Shutdown()
	names := func(m *ml.Memberlist) string {
		var l []string
		for _, n := range m.Members() {
			l = append(l, n.Name)
		}
		sort.Strings(l)
		return strings.Join(l, "+")
	}
	hostPre, joinPre := names(host.m), names(joiner.m)
	a, b := net.Pipe()
	joiner.tr.dial = func(addr string) (net.Conn, error) { return a, nil }
	done := make(chan struct{})
	go func() { defer close(done); defer func() { recover() }(); ml.VerifHandleConn(host.m, b) }()
	res := "ok"
	if n, jerr := joiner.m.Join([]string{"H/10.0.0.9:7946"}); jerr != nil || n != 1 {
		res = "err"
	}
	a.Close()
	select {
	case <-done:
	case <-time.After(15 * time.Second):
		res += "!hostblocked"
	}
	emit("C09 auth id=%s hl=%s jl=%s skip=%d samekey=%d res=%s hostpre=%s hostpost=%s joinpre=%s joinpost=%s", id,
		hx([]byte(hl)), hx([]byte(jl)), b2i(skip), b2i(sameKey), res, hostPre, names(host.m), joinPre, names(joiner.m))
}
