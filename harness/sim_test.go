package harness

// Virtual-time cluster simulator: real memberlist nodes with real tickers inside one
// testing/synctest bubble, connected by a fault-injecting transport that never blocks.

import (
	"fmt"
	"io"
	"log"
	"math/rand"
	"net"
	"sort"
	"strings"
	"sync"
	"sync/atomic"
	"testing"
	"testing/synctest"
	"time"

	ml "github.com/hashicorp/memberlist"
)

type simNet struct {
	mu      sync.Mutex
	nodes   map[string]*simTransport // by "ip:port"
	byName  map[string]string        // member name -> "ip:port" (name-routed runs)
	r       *rng
	loss    int // percent
	dup     int // percent
	latMin  time.Duration
	latMax  time.Duration
	blocked map[[2]string]bool // partition: directed pairs that cannot talk
	tap     func(src, dst string, buf []byte)
	tap2    func(src, dst string, buf []byte) // invariant monitor
	// when set, suspect/dead packets between survivors are dropped (own-evidence runs)
	dropAccusations bool
	sent, dropped   int64
	// the sending goroutine returns from WriteTo this long after the packet left (a slow system call;
	// the packet itself is not delayed)
	slowReturn time.Duration
}

func newSimNet(r *rng) *simNet {
	return &simNet{nodes: map[string]*simTransport{}, byName: map[string]string{}, r: r, blocked: map[[2]string]bool{}}
}

func (sn *simNet) latency() time.Duration {
	if sn.latMax <= sn.latMin {
		return sn.latMin
	}
	return sn.latMin + time.Duration(sn.r.intn(int(sn.latMax-sn.latMin)))
}

type simTransport struct {
	net                 *simNet
	addr                string
	ip                  net.IP
	port                int
	pktCh               chan *ml.Packet
	streamCh            chan net.Conn
	down                atomic.Bool
	afterShutdownWrites atomic.Int64
	shut                atomic.Bool
	// the crash took the route with it: sending to this address fails with a udp write error
	unreachable atomic.Bool
	// a hung process: its sockets stay open (connections are accepted and bytes swallowed) but nothing answers
	hung      atomic.Bool
	stalled   atomic.Bool // with hung: accepted connections are never read either
	hungMu    sync.Mutex
	hungConns []net.Conn
	// reads this node has pending on streams to hung peers (each must end at the stream's deadline)
	pendingHungReads atomic.Int64
}

// trackedConn counts the reads in flight on a stream to a hung peer
type trackedConn struct {
	net.Conn
	ctr *atomic.Int64
}

func (c *trackedConn) Read(p []byte) (int, error) {
	c.ctr.Add(1)
	defer c.ctr.Add(-1)
	return c.Conn.Read(p)
}

func (sn *simNet) newTransport(ip string, port int) *simTransport {
	t := &simTransport{net: sn, addr: fmt.Sprintf("%s:%d", ip, port), ip: net.ParseIP(ip).To4(), port: port,
		pktCh: make(chan *ml.Packet, 8192), streamCh: make(chan net.Conn, 256)}
	sn.mu.Lock()
	sn.nodes[t.addr] = t
	sn.mu.Unlock()
	return t
}

// nameRouted makes a simTransport node-aware: what is addressed to (address, name) goes to the member
// called name when one runs in the simulated network - as a transport that routes by node name does -
// and to the address when no name is given.
type nameRouted struct{ *simTransport }

func (t nameRouted) resolve(a ml.Address) string {
	if a.Name != "" {
		t.net.mu.Lock()
		addr, ok := t.net.byName[a.Name]
		t.net.mu.Unlock()
		if ok {
			return addr
		}
	}
	return a.Addr
}

func (t nameRouted) WriteToAddress(b []byte, a ml.Address) (time.Time, error) {
	return t.WriteTo(b, t.resolve(a))
}

func (t nameRouted) DialAddressTimeout(a ml.Address, timeout time.Duration) (net.Conn, error) {
	return t.DialTimeout(t.resolve(a), timeout)
}

func (t *simTransport) FinalAdvertiseAddr(ip string, port int) (net.IP, int, error) {
	return t.ip, t.port, nil
}

func (t *simTransport) WriteTo(b []byte, addr string) (time.Time, error) {
	now := time.Now()
	if t.shut.Load() {
		t.afterShutdownWrites.Add(1)
		return now, fmt.Errorf("transport shut down")
	}
	sn := t.net
	sn.mu.Lock()
	dst := sn.nodes[addr]
	atomic.AddInt64(&sn.sent, 1)
	drop := dst == nil || dst.down.Load() || t.down.Load() || sn.blocked[[2]string{t.addr, addr}] || sn.r.intn(100) < sn.loss
	if !drop && sn.dropAccusations && containsAccusation(b) {
		drop = true
	}
	ndup := 1
	if !drop && sn.r.intn(100) < sn.dup {
		ndup = 2
	}
	lats := []time.Duration{sn.latency(), sn.latency()}
	tap, tap2 := sn.tap, sn.tap2
	slow := sn.slowReturn
	sn.mu.Unlock()
	if dst != nil && dst.unreachable.Load() {
		atomic.AddInt64(&sn.dropped, 1)
		return now, &net.OpError{Op: "write", Net: "udp", Err: fmt.Errorf("sendto %s: network is unreachable", addr)}
	}
	if slow > 0 {
		defer time.Sleep(slow)
	}
	if tap != nil {
		tap(t.addr, addr, b)
	}
	if tap2 != nil {
		tap2(t.addr, addr, b)
	}
	if drop {
		atomic.AddInt64(&sn.dropped, 1)
		return now, nil
	}
	buf := append([]byte(nil), b...)
	from := &net.UDPAddr{IP: t.ip, Port: t.port}
	for i := 0; i < ndup; i++ {
		time.AfterFunc(lats[i], func() {
			if dst.down.Load() {
				return
			}
			select {
			case dst.pktCh <- &ml.Packet{Buf: buf, From: from, Timestamp: time.Now()}:
			default:
			}
		})
	}
	return now, nil
}

// simParts splits a plaintext packet into its leaf messages: the checksum header (peers speaking
// protocol version 5) is stripped and compound messages are expanded, recursively.
func simParts(b []byte) [][]byte {
	if len(b) >= 5 && b[0] == 12 {
		b = b[5:]
	}
	if len(b) == 0 {
		return nil
	}
	if b[0] == 7 {
		_, parts, err := ml.VerifDecodeCompoundMessage(b[1:])
		if err != nil {
			return nil
		}
		var out [][]byte
		for _, p := range parts {
			out = append(out, simParts(p)...)
		}
		return out
	}
	return [][]byte{b}
}

// containsAccusation: does a packet carry a suspect or dead message (plaintext runs only)?
func containsAccusation(b []byte) bool {
	for _, p := range simParts(b) {
		if len(p) > 0 && (p[0] == 3 || p[0] == 5) {
			return true
		}
	}
	return false
}

func (t *simTransport) PacketCh() <-chan *ml.Packet { return t.pktCh }
func (t *simTransport) StreamCh() <-chan net.Conn   { return t.streamCh }

func (t *simTransport) DialTimeout(addr string, timeout time.Duration) (net.Conn, error) {
	if t.shut.Load() {
		t.afterShutdownWrites.Add(1)
		return nil, fmt.Errorf("transport shut down")
	}
	sn := t.net
	sn.mu.Lock()
	dst := sn.nodes[addr]
	bad := dst == nil || dst.down.Load() || t.down.Load() || sn.blocked[[2]string{t.addr, addr}] || sn.blocked[[2]string{addr, t.addr}]
	lat := sn.latency()
	sn.mu.Unlock()
	if dst != nil && dst.hung.Load() && !t.down.Load() {
		a, b := net.Pipe()
		dst.hungMu.Lock()
		dst.hungConns = append(dst.hungConns, b)
		dst.hungMu.Unlock()
		if !dst.stalled.Load() {
			go io.Copy(io.Discard, b)
		} // else: accepted, never read - a peer with a closed receive window: writes wait for their deadline
		return &trackedConn{Conn: a, ctr: &t.pendingHungReads}, nil
	}
	if bad {
		time.Sleep(lat)
		return nil, &net.OpError{Op: "dial", Net: "tcp", Err: fmt.Errorf("connection refused")}
	}
	a, b := net.Pipe()
	select {
	case dst.streamCh <- b:
	default:
		a.Close()
		b.Close()
		return nil, &net.OpError{Op: "dial", Net: "tcp", Err: fmt.Errorf("backlog full")}
	}
	return a, nil
}

func (t *simTransport) Shutdown() error {
	t.shut.Store(true)
	t.down.Store(true)
	return nil
}

// ---- nodes ----

type simEvent struct {
	at   time.Duration
	kind string // join leave update conflict
	name string
	meta string
}

type simNode struct {
	name         string
	m            *ml.Memberlist
	tr           *simTransport
	mu           sync.Mutex
	events       []simEvent
	inside       atomic.Int32
	overlap      atomic.Int64
	view         map[string]string // replay of the event log: name -> meta
	badLog       []string          // event-log / Members() mismatches seen inside callbacks
	t0           time.Time
	meta         []byte
	crashed      bool
	writerOnSend bool
	chatty       int // user broadcasts handed out one per call for this many calls
	left         bool
	maxScore     int
	delGot       int
	ubq          [][]byte // pending user broadcasts (each handed out once)
	onNodeMeta   func()   // one-shot hook run inside the NodeMeta callback (interleaving control)
}

func (n *simNode) enter() {
	if n.inside.Add(1) != 1 {
		n.overlap.Add(1)
	}
}
func (n *simNode) exit() { n.inside.Add(-1) }

func (n *simNode) NotifyJoin(nd *ml.Node) {
	n.enter()
	defer n.exit()
	n.mu.Lock()
	n.events = append(n.events, simEvent{time.Since(n.t0), "join", nd.Name, string(nd.Meta)})
	if _, ok := n.view[nd.Name]; ok {
		n.badLog = append(n.badLog, "join-twice:"+nd.Name)
	}
	n.view[nd.Name] = string(nd.Meta)
	n.mu.Unlock()
}
func (n *simNode) NotifyLeave(nd *ml.Node) {
	n.enter()
	defer n.exit()
	n.mu.Lock()
	n.events = append(n.events, simEvent{time.Since(n.t0), "leave", nd.Name, ""})
	if _, ok := n.view[nd.Name]; !ok {
		n.badLog = append(n.badLog, "leave-without-join:"+nd.Name)
	}
	delete(n.view, nd.Name)
	n.mu.Unlock()
}
func (n *simNode) NotifyUpdate(nd *ml.Node) {
	n.enter()
	defer n.exit()
	n.mu.Lock()
	n.events = append(n.events, simEvent{time.Since(n.t0), "update", nd.Name, string(nd.Meta)})
	if _, ok := n.view[nd.Name]; !ok {
		n.badLog = append(n.badLog, "update-for-non-member:"+nd.Name)
	}
	n.view[nd.Name] = string(nd.Meta)
	n.mu.Unlock()
}
func (n *simNode) NotifyConflict(existing, other *ml.Node) {
	n.mu.Lock()
	n.events = append(n.events, simEvent{time.Since(n.t0), "conflict", other.Name, ""})
	n.mu.Unlock()
}
func (n *simNode) NodeMeta(limit int) []byte {
	if f := n.onNodeMeta; f != nil {
		n.onNodeMeta = nil
		f()
	}
	return n.meta
}
func (n *simNode) NotifyMsg(b []byte) { n.mu.Lock(); n.delGot++; n.mu.Unlock() }

// GetBroadcasts hands out pending user broadcasts, each once, as many as fit
func (n *simNode) GetBroadcasts(overhead, limit int) [][]byte {
	if n.writerOnSend && n.m != nil {
		// "gossip arrives while this node is sending": every membership handler starts by taking
		// the write lock; the sender then yields for a microsecond of virtual time
		m := n.m
		go ml.VerifWithNodeLock(m, func() {})
		time.Sleep(time.Microsecond)
	}
	n.mu.Lock()
	defer n.mu.Unlock()
	var out [][]byte
	used := 0
	if n.chatty > 0 && overhead+1 <= limit {
		// an application that always has something small to say: one message in every packet
		n.chatty--
		return [][]byte{{'c'}}
	}
	for len(n.ubq) > 0 && used+overhead+len(n.ubq[0]) <= limit {
		used += overhead + len(n.ubq[0])
		out = append(out, n.ubq[0])
		n.ubq = n.ubq[1:]
	}
	return out
}

// queueBurst queues k one-byte user broadcasts
func (n *simNode) queueBurst(k int) {
	n.mu.Lock()
	for i := 0; i < k; i++ {
		n.ubq = append(n.ubq, []byte{byte('a' + i%26)})
	}
	n.mu.Unlock()
}
func (n *simNode) LocalState(join bool) []byte            { return nil }
func (n *simNode) MergeRemoteState(buf []byte, join bool) {}

type simCfg struct {
	mixedProto                                                        bool // nodes speak different (compatible) protocol versions
	probeInterval, probeTimeout, gossipInterval, pushPull, gossipDead time.Duration
	suspMult, suspMaxMult, retransmit, indirect, awareMax             int
	tcpPings                                                          bool
	key                                                               []byte
	label                                                             string
	proto                                                             uint8 // 0: library default
	// a membership writer takes the node lock each time the library is about to send a packet
	writerOnSend bool
	// names of different lengths (n0, n1x, n2xx, ... from a per-cluster offset): packet sizes depend on them
	padNames int
	// the transport is node-aware and routes by the name in the address it is given
	routeByName bool
}

func defaultSimCfg() simCfg {
	return simCfg{probeInterval: time.Second, probeTimeout: 500 * time.Millisecond, gossipInterval: 200 * time.Millisecond,
		pushPull: 15 * time.Second, gossipDead: 30 * time.Second, suspMult: 4, suspMaxMult: 6, retransmit: 4, indirect: 3, awareMax: 8, tcpPings: true}
}

func (sn *simNet) newNode(i int, c simCfg, t0 time.Time) (*simNode, error) {
	name := fmt.Sprintf("n%d", i)
	if c.padNames > 0 {
		name += strings.Repeat("x", (i*5+c.padNames)%16)
	}
	return sn.newNamedNode(i, name, c, t0)
}

// newNamedNode creates a node at the address slot i under an arbitrary name (address take-over).
func (sn *simNet) newNamedNode(i int, name string, c simCfg, t0 time.Time) (*simNode, error) {
	tr := sn.newTransport(fmt.Sprintf("10.0.%d.%d", i/250, i%250+1), 7946)
	n := &simNode{name: name, tr: tr, view: map[string]string{}, t0: t0, meta: []byte("m0-" + name)}
	conf := ml.DefaultLANConfig()
	conf.Name = name
	conf.Transport = tr
	if c.routeByName {
		sn.mu.Lock()
		sn.byName[name] = tr.addr
		sn.mu.Unlock()
		conf.Transport = nameRouted{tr}
	}
	conf.BindPort = 7946
	conf.AdvertisePort = 7946
	conf.ProbeInterval = c.probeInterval
	conf.ProbeTimeout = c.probeTimeout
	conf.GossipInterval = c.gossipInterval
	conf.PushPullInterval = c.pushPull
	conf.GossipToTheDeadTime = c.gossipDead
	conf.SuspicionMult = c.suspMult
	conf.SuspicionMaxTimeoutMult = c.suspMaxMult
	conf.RetransmitMult = c.retransmit
	conf.IndirectChecks = c.indirect
	conf.AwarenessMaxMultiplier = c.awareMax
	conf.DisableTcpPings = !c.tcpPings
	conf.TCPTimeout = 2 * time.Second
	conf.Events = n
	conf.Conflict = n
	conf.Delegate = n
	conf.Label = c.label
	conf.EnableCompression = false
	conf.Logger = log.New(io.Discard, "", 0)
	if c.mixedProto {
		conf.ProtocolVersion = uint8(2 + i%4)
	}
	if c.proto != 0 {
		conf.ProtocolVersion = c.proto
	}
	n.writerOnSend = c.writerOnSend
	if c.key != nil {
		kr, err := ml.NewKeyring(nil, c.key)
		if err != nil {
			return nil, err
		}
		conf.Keyring = kr
	}
	m, err := ml.Create(conf)
	if err != nil {
		return nil, err
	}
	n.m = m
	return n, nil
}

func (n *simNode) members() []string {
	var out []string
	for _, nd := range n.m.Members() {
		out = append(out, nd.Name)
	}
	sort.Strings(out)
	return out
}

func (n *simNode) viewNames() []string {
	n.mu.Lock()
	defer n.mu.Unlock()
	var out []string
	for k := range n.view {
		out = append(out, k)
	}
	sort.Strings(out)
	return out
}

func (n *simNode) crash() {
	n.crashed = true
	n.tr.down.Store(true)
	n.m.Shutdown()
}

// hang: the process stops (no packets in or out) but its listening socket stays open
func (n *simNode) hang() {
	n.crashed = true
	n.tr.hung.Store(true)
	n.m.Shutdown()
}

func (t *simTransport) closeHung() {
	t.hungMu.Lock()
	for _, c := range t.hungConns {
		c.Close()
	}
	t.hungConns = nil
	t.hungMu.Unlock()
}

func (n *simNode) sampleScore() {
	if s := n.m.GetHealthScore(); s > n.maxScore {
		n.maxScore = s
	}
}

// cluster bring-up: everybody joins n0 (or a random earlier node), staggered
type simCluster struct {
	net   *simNet
	nodes []*simNode
	cfg   simCfg
	t0    time.Time
	r     *rng
}

func newSimCluster(r *rng, n int, c simCfg) (*simCluster, error) {
	rand.Seed(int64(r.next() >> 1))
	cl := &simCluster{net: newSimNet(r), cfg: c, t0: time.Now(), r: r}
	for i := 0; i < n; i++ {
		nd, err := cl.net.newNode(i, c, cl.t0)
		if err != nil {
			return nil, err
		}
		cl.nodes = append(cl.nodes, nd)
	}
	return cl, nil
}

func (cl *simCluster) joinAll(stagger time.Duration) int {
	failed := 0
	for i := 1; i < len(cl.nodes); i++ {
		if stagger > 0 {
			time.Sleep(time.Duration(cl.r.intn(int(stagger) + 1)))
		}
		target := cl.nodes[cl.r.intn(i)]
		if _, err := cl.nodes[i].m.Join([]string{fmt.Sprintf("%s/%s", target.name, target.tr.addr)}); err != nil {
			failed++
		}
	}
	return failed
}

func (cl *simCluster) live() []*simNode {
	var out []*simNode
	for _, n := range cl.nodes {
		if !n.crashed {
			out = append(out, n)
		}
	}
	return out
}

func (cl *simCluster) shutdownAll() {
	for _, n := range cl.nodes {
		if !n.crashed {
			n.m.Shutdown()
		}
		n.tr.closeHung()
	}
	// background activity ends within one awareness-scaled probe interval (plus stream timeouts)
	time.Sleep(time.Duration(cl.cfg.awareMax)*cl.cfg.probeInterval + 5*time.Second)
	synctest.Wait()
}

// bubble runs one scenario in its own synctest bubble. If goroutines of the scenario are still
// blocked when it returns (a leak or a deadlock), synctest panics in the goroutine that called it:
// that is reported as a line instead of killing the harness. If the scenario makes no progress at
// all - virtual time cannot advance because a goroutine waits for a lock that is never released, the
// signature of a deadlock inside the library - the watchdog (real time, outside the bubble) reports
// the case as stuck and the harness moves on; the stuck bubble is abandoned.
func bubble(t *testing.T, prop, id string, f func()) {
	if stuckCases.Load() >= 2 {
		return // two scenarios of this process already stalled: do not spend the time budget on more
	}
	done := make(chan struct{})
	go func() {
		defer close(done)
		defer func() {
			if rec := recover(); rec != nil {
				msg := strings.ReplaceAll(strings.SplitN(fmt.Sprint(rec), "\n", 2)[0], " ", "_")
				emit("%s leak id=%s msg=%s", prop, id, msg)
			}
		}()
		synctest.Test(t, func(t *testing.T) { f() })
	}()
	limit := time.Duration(envInt("VERIF_STUCK_S", 45)) * time.Second
	select {
	case <-done:
	case <-time.After(limit):
		emit("%s stuck id=%s after=%ds", prop, id, int(limit.Seconds()))
		flushOut()
		stuckCases.Add(1)
	}
}

var stuckCases atomic.Int64

func (cl *simCluster) since() time.Duration { return time.Since(cl.t0) }

// invMonitor observes, on the real cluster, the conclusions of the cluster-level theorems
// (C02_cluster_bounded, C08_cluster_left_is_left, address ownership in Swim.Props.ClusterG): every
// alive/suspect/dead message a node puts on the wire names an incarnation its subject itself has
// reached, alive messages carry the subject's own address, and a self-signed dead message exists
// only for a member that called Leave. Members whose process restarted (counter reset) are skipped:
// the theorems are about restart-free histories.
type invMonitor struct {
	mu    sync.Mutex
	seen  map[string]ml.VerifClaim
	skip  map[string]bool
	total int
}

func (cl *simCluster) startMonitor() *invMonitor {
	mon := &invMonitor{seen: map[string]ml.VerifClaim{}, skip: map[string]bool{}}
	cl.net.mu.Lock()
	cl.net.tap2 = func(src, dst string, buf []byte) {
		for _, p := range simParts(buf) {
			if len(p) < 2 || (p[0] != 3 && p[0] != 4 && p[0] != 5) {
				continue
			}
			c, ok := ml.VerifDecodeClaim(p[0], p[1:])
			if !ok {
				continue
			}
			key := fmt.Sprintf("%d/%s/%d/%s/%x/%d", c.Type, c.Node, c.Incarnation, c.From, c.Addr, c.Port)
			mon.mu.Lock()
			mon.total++
			if c.Type == 5 && c.From != c.Node {
				key = fmt.Sprintf("5/%s/%d/accuser", c.Node, c.Incarnation)
			}
			if c.Type == 3 {
				key = fmt.Sprintf("3/%s/%d", c.Node, c.Incarnation)
			}
			mon.seen[key] = c
			mon.mu.Unlock()
		}
	}
	cl.net.mu.Unlock()
	return mon
}

// verdict evaluates every distinct claim seen so far against the current state of its subject
// (incarnations only grow, addresses and the Leave flag do not change back): "ok" or the first violation.
func (mon *invMonitor) verdict(nodes []*simNode) string {
	mon.mu.Lock()
	defer mon.mu.Unlock()
	byName := map[string]*simNode{}
	for _, nd := range nodes {
		byName[nd.name] = nd
	}
	var keys []string
	for k := range mon.seen {
		keys = append(keys, k)
	}
	sort.Strings(keys)
	for _, k := range keys {
		c := mon.seen[k]
		s := byName[c.Node]
		if s == nil || mon.skip[c.Node] {
			continue
		}
		snap := ml.VerifSnapshotState(s.m)
		var me *ml.VerifNodeState
		for i := range snap.Nodes {
			if snap.Nodes[i].Name == c.Node {
				me = &snap.Nodes[i]
			}
		}
		own := snap.Incarnation // own record reaped after Leave: fall back to the counter
		if me != nil {
			own = me.Incarnation
		}
		if c.Incarnation > own {
			return fmt.Sprintf("claim-above-subject:type%d:%s:%d>%d", c.Type, c.Node, c.Incarnation, own)
		}
		if c.Type == 4 && !(net.IP(c.Addr).Equal(s.tr.ip) && int(c.Port) == s.tr.port) {
			return fmt.Sprintf("alive-with-foreign-address:%s", c.Node)
		}
		if c.Type == 5 && c.From == c.Node && !snap.HasLeft {
			return fmt.Sprintf("departure-of-member-that-did-not-leave:%s", c.Node)
		}
	}
	return "ok"
}

func names(ns []*simNode) string {
	var s []string
	for _, n := range ns {
		s = append(s, n.name)
	}
	return strings.Join(s, "+")
}
