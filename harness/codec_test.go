package harness

// Byte-level codec harness: real sender and receiver Memberlists connected by a capturing
// transport; serves C11 (packing, budget), C12 (pipeline round-trip), C16 (labels),
// C13 (hostile bytes), C14 (authentication), C15 (confidentiality leg).

import (
	"bytes"
	"fmt"
	"io"
	"log"
	"net"
	"sort"
	"strings"
	"sync"
	"sync/atomic"
	"time"

	ml "github.com/hashicorp/memberlist"
)

// capTransport records every buffer handed to it (below the label wrapper).
type capTransport struct {
	nullTransport
	streams chan net.Conn
	dial    func(addr string) (net.Conn, error)
}

func newCapTransport() *capTransport {
	return &capTransport{nullTransport: *newNullTransport()}
}

func (t *capTransport) take() [][]byte {
	t.mu.Lock()
	defer t.mu.Unlock()
	o := t.sent
	t.sent = nil
	t.sentTo = nil
	return o
}

// takeTo returns and clears the recorded packets together with their destinations.
func (t *capTransport) takeTo() ([][]byte, []string) {
	t.mu.Lock()
	defer t.mu.Unlock()
	o, a := t.sent, t.sentTo
	t.sent, t.sentTo = nil, nil
	return o, a
}

func (t *capTransport) DialTimeout(addr string, timeout time.Duration) (net.Conn, error) {
	if t.dial != nil {
		return t.dial(addr)
	}
	return nil, fmt.Errorf("cap transport: no dialer")
}

// userDel records delivered user messages and serves user broadcasts from its own queue.
type userDel struct {
	mu     sync.Mutex
	got    [][]byte
	q      *ml.TransmitLimitedQueue
	state  []byte
	merged [][]byte
	meta   []byte
	block  chan struct{} // when set, NotifyMsg waits on it (handler stall)
}

func (d *userDel) NodeMeta(limit int) []byte { return d.meta }
func (d *userDel) NotifyMsg(b []byte) {
	if d.block != nil {
		<-d.block
	}
	d.mu.Lock()
	d.got = append(d.got, append([]byte(nil), b...))
	d.mu.Unlock()
}
func (d *userDel) GetBroadcasts(overhead, limit int) [][]byte {
	if d.q == nil {
		return nil
	}
	return d.q.GetBroadcasts(overhead, limit)
}
func (d *userDel) LocalState(join bool) []byte { return d.state }
func (d *userDel) MergeRemoteState(buf []byte, join bool) {
	d.mu.Lock()
	d.merged = append(d.merged, append([]byte(nil), buf...))
	d.mu.Unlock()
}
func (d *userDel) take() [][]byte {
	d.mu.Lock()
	defer d.mu.Unlock()
	o := d.got
	d.got = nil
	return o
}

type ubc struct{ msg []byte }

func (b *ubc) Invalidates(ml.Broadcast) bool { return false }
func (b *ubc) Message() []byte               { return b.msg }
func (b *ubc) Finished()                     {}
func (b *ubc) UniqueBroadcast()              {}

type ccfg struct {
	label      string
	key        []byte // nil = no encryption
	keys       [][]byte
	proto      uint8 // 1 => encryption version 0
	compress   bool
	udp        int
	verifyIn   bool
	verifyOut  bool
	skipIn     bool
	name       string
	cidrs      []string
	emptyRing  bool          // a keyring without keys at creation (keys installed later)
	noDel      bool          // no user Delegate configured
	tcpTimeout time.Duration // 0 = default
	altRep     bool          // allow-list in the other in-memory form (altNets)
	ringToo    bool          // with secretKey: a keyring holding the key is configured as well; the application keeps that handle
	secretKey  bool          // the key is given as Config.SecretKey (Create builds the keyring)
}

type cnode struct {
	m   *ml.Memberlist
	tr  *capTransport
	del *userDel
	ev  *recorder
	cfg ccfg
	kr  *ml.Keyring
	// noSentinel is set when the node turned out unable to receive its own sealed traffic
	// (a broken configuration or a broken tree): quiesce then falls back to a short sleep.
	noSentinel bool
}

func newCnode(c ccfg) (*cnode, error) {
	tr := newCapTransport()
	del := &userDel{q: &ml.TransmitLimitedQueue{RetransmitMult: 1, NumNodes: func() int { return 1 }}}
	ev := &recorder{pool: newAddrPool()}
	var keyring *ml.Keyring
	conf := ml.DefaultLANConfig()
	conf.Name = c.name
	if conf.Name == "" {
		conf.Name = "S"
	}
	conf.Transport = tr
	conf.AdvertiseAddr = "10.0.0.9"
	conf.AdvertisePort = 7946
	conf.BindPort = 7946
	conf.ProbeInterval = time.Hour
	conf.ProbeTimeout = time.Minute
	conf.GossipInterval = 0
	conf.PushPullInterval = 0
	if !c.noDel {
		conf.Delegate = del
	}
	if c.tcpTimeout > 0 {
		conf.TCPTimeout = c.tcpTimeout
	}
	conf.Events = ev
	conf.RetransmitMult = 1
	conf.Label = c.label
	conf.SkipInboundLabelCheck = c.skipIn
	conf.EnableCompression = c.compress
	conf.UDPBufferSize = c.udp
	if conf.UDPBufferSize == 0 {
		conf.UDPBufferSize = 1400
	}
	conf.ProtocolVersion = c.proto
	if conf.ProtocolVersion == 0 {
		conf.ProtocolVersion = 2
	}
	conf.GossipVerifyIncoming = c.verifyIn
	conf.GossipVerifyOutgoing = c.verifyOut
	conf.Logger = log.New(io.Discard, "", 0)
	if len(c.cidrs) > 0 {
		nets, err := ml.ParseCIDRs(c.cidrs)
		if err != nil {
			return nil, err
		}
		conf.CIDRsAllowed = nets
		if c.altRep {
			conf.CIDRsAllowed = altNets(nets)
		}
	}
	var appRing *ml.Keyring
	if c.emptyRing {
		kr, _ := ml.NewKeyring(nil, nil)
		conf.Keyring = kr
		keyring = kr
		if c.secretKey {
			appRing = kr // the application hands in a ring it will fill and rotate later, plus the first key as SecretKey
		}
	}
	if c.key != nil && c.secretKey {
		conf.SecretKey = c.key
		if c.ringToo {
			appRing, _ = ml.NewKeyring(nil, c.key)
			conf.Keyring = appRing
		}
	} else if c.key != nil {
		kr, err := ml.NewKeyring(c.keys, c.key)
		if err != nil {
			return nil, err
		}
		conf.Keyring = kr
		keyring = kr
	}
	m, err := ml.Create(conf)
	if err != nil {
		return nil, err
	}
	ml.VerifResetBroadcasts(m)
	ev.take()
	if c.secretKey {
		keyring = conf.Keyring
		if appRing != nil {
			keyring = appRing // the handle the application supplied is the one it rotates
		}
		if c.emptyRing && keyring != nil {
			for _, k := range c.keys {
				keyring.AddKey(k)
			}
		}
	}
	return &cnode{m: m, tr: tr, del: del, ev: ev, cfg: c, kr: keyring}, nil
}

var fromAddr = &net.UDPAddr{IP: net.IPv4(10, 0, 0, 1), Port: 7946}

var sentinelSeq atomic.Uint64

// quiesce waits until the packet handler goroutine has finished everything queued so far:
// once the handoff queue is empty it sends the node a user packet sealed by the node itself
// (same label and key) carrying a unique marker, and waits for its delivery. The handler is a
// single goroutine, so when the marker arrives every earlier message has been fully processed.
func (n *cnode) quiesce() {
	for i := 0; i < 4000 && ml.VerifHandoffLen(n.m) > 0; i++ {
		time.Sleep(50 * time.Microsecond)
	}
	if n.noSentinel {
		time.Sleep(2 * time.Millisecond)
		return
	}
	marker := []byte(fmt.Sprintf("\x00verif-sentinel-%d", sentinelSeq.Add(1)))
	n.tr.mu.Lock()
	keep := n.tr.sent
	n.tr.sent = nil
	n.tr.mu.Unlock()
	self := &ml.Node{Name: "sentinel", Addr: []byte{10, 0, 0, 250}, Port: 1, PMax: 2}
	_ = n.m.SendBestEffort(self, marker)
	n.tr.mu.Lock()
	pk := n.tr.sent
	n.tr.sent = keep
	n.tr.mu.Unlock()
	delivered := false
	if len(pk) == 1 {
		buf := pk[0]
		if n.cfg.skipIn {
			if nb, _, err := ml.RemoveLabelHeaderFromPacket(buf); err == nil {
				buf = nb
			}
		}
		ml.VerifIngestPacket(n.m, buf, fromAddr, time.Now())
		for i := 0; i < 6000 && !delivered; i++ {
			n.del.mu.Lock()
			for j, g := range n.del.got {
				if bytes.Equal(g, marker) {
					n.del.got = append(n.del.got[:j:j], n.del.got[j+1:]...)
					delivered = true
					break
				}
			}
			n.del.mu.Unlock()
			if !delivered {
				time.Sleep(50 * time.Microsecond)
			}
		}
	}
	if !delivered {
		n.noSentinel = true
		time.Sleep(20 * time.Millisecond)
	}
}

// ingest feeds one packet and waits until the node has fully processed it.
func (n *cnode) ingest(buf []byte) (panicked bool) {
	defer func() {
		if r := recover(); r != nil {
			panicked = true
		}
	}()
	ml.VerifIngestPacket(n.m, buf, fromAddr, time.Now())
	n.quiesce()
	return false
}

func digest(b []byte) uint64 {
	var s uint64
	for i, x := range b {
		s = (s + uint64(i+1)*uint64(x)) % 1000000007
	}
	return s
}

func hexList(bs [][]byte) string {
	if len(bs) == 0 {
		return "-"
	}
	s := make([]string, len(bs))
	for i, b := range bs {
		s[i] = hx(b)
	}
	return strings.Join(s, ",")
}

func sortedHex(bs [][]byte) string {
	s := make([]string, len(bs))
	for i, b := range bs {
		s[i] = hx(b)
	}
	sort.Strings(s)
	if len(s) == 0 {
		return "-"
	}
	return strings.Join(s, ",")
}

func mkKey(r *rng, n int) []byte { return r.bytes(n) }

func labelOf(n int) string {
	if n == 0 {
		return ""
	}
	return strings.Repeat("L", n)
}
