package harness

import (
	"bytes"
	"fmt"
	"io"
	"log"
	"net"
	"strings"
	"sync"
	"testing"
	"time"

	ml "github.com/hashicorp/memberlist"
)

// fragConn is an in-memory net.Conn whose Read delivers the input in caller-chosen fragments
// and whose Write collects the output.
type fragConn struct {
	mu     sync.Mutex
	frags  [][]byte
	out    bytes.Buffer
	closed bool
	served int
	onFrag func(i int) // called before the i-th fragment (0-based) is handed to the reader
}

func newFragConn(data []byte, cuts []int) *fragConn {
	c := &fragConn{}
	prev := 0
	for _, k := range cuts {
		if k > prev && k < len(data) {
			c.frags = append(c.frags, data[prev:k])
			prev = k
		}
	}
	if prev < len(data) {
		c.frags = append(c.frags, data[prev:])
	}
	return c
}
func (c *fragConn) Read(p []byte) (int, error) {
	c.mu.Lock()
	defer c.mu.Unlock()
	if len(c.frags) == 0 {
		return 0, io.EOF
	}
	if f := c.onFrag; f != nil {
		c.onFrag = nil
		c.mu.Unlock()
		f(c.served)
		c.mu.Lock()
		c.onFrag = f
	}
	n := copy(p, c.frags[0])
	if n < len(c.frags[0]) {
		c.frags[0] = c.frags[0][n:]
	} else {
		c.frags = c.frags[1:]
		c.served++
	}
	return n, nil
}
func (c *fragConn) Write(p []byte) (int, error) {
	c.mu.Lock()
	defer c.mu.Unlock()
	c.out.Write(p)
	return len(p), nil
}
func (c *fragConn) written() []byte {
	c.mu.Lock()
	defer c.mu.Unlock()
	return append([]byte(nil), c.out.Bytes()...)
}
func (c *fragConn) Close() error                       { c.closed = true; return nil }
func (c *fragConn) LocalAddr() net.Addr                { return fromAddr }
func (c *fragConn) RemoteAddr() net.Addr               { return fromAddr }
func (c *fragConn) SetDeadline(t time.Time) error      { return nil }
func (c *fragConn) SetReadDeadline(t time.Time) error  { return nil }
func (c *fragConn) SetWriteDeadline(t time.Time) error { return nil }

func randCuts(r *rng, n int) []int {
	var cuts []int
	switch r.intn(4) {
	case 0: // byte by byte over the first 300 bytes
		for i := 1; i < n && i < 300; i++ {
			cuts = append(cuts, i)
		}
	case 1:
	default:
		p := 0
		for p < n {
			p += 1 + r.intn(40)
			cuts = append(cuts, p)
		}
	}
	return cuts
}

func randCcfg(r *rng) (ccfg, string) {
	c := ccfg{udp: 1400, label: labelOf([]int{0, 0, 1, 7, 255}[r.intn(5)]), compress: r.chance(1, 3), verifyIn: true, verifyOut: true, proto: 2}
	enc := "n"
	switch r.intn(3) {
	case 1:
		c.key, c.proto, enc = mkKey(r, 16), 1, "0"
	case 2:
		c.key, enc = mkKey(r, []int{16, 24, 32}[r.intn(3)]), "1"
	}
	return c, enc
}

// captureStream runs f with the sender's dialer wired to a collecting conn and returns the bytes written.
func captureStream(snd *cnode, f func()) []byte {
	fc := newFragConn(nil, nil)
	snd.tr.dial = func(addr string) (net.Conn, error) { return fc, nil }
	f()
	snd.tr.dial = nil
	return fc.written()
}

func c12Rt(r *rng, id string) {
	c, enc := randCcfg(r)
	snd, err := newCnode(c)
	if err != nil {
		emit("C12 rt id=%s err=create", id)
		return
	}
	defer snd.m.Shutdown()
	rc := c
	rc.name = "R"
	// sometimes the receiver leaves the label check to an outer layer, which strips the header first
	skipRcv := c.label != "" && r.chance(1, 4)
	rc.skipIn = skipRcv
	rcv, err := newCnode(rc)
	if err != nil {
		emit("C12 rt id=%s err=create", id)
		return
	}
	defer rcv.m.Shutdown()
	strip := func(b []byte) []byte {
		if !skipRcv {
			return b
		}
		if nb, _, err := ml.RemoveLabelHeaderFromPacket(b); err == nil {
			return nb
		}
		return b
	}
	crc := r.chance(1, 2)
	pmax := uint8(4)
	if crc {
		pmax = 5
	}
	to := &ml.Node{Name: "R", Addr: net.IPv4(10, 0, 0, 1), Port: 7946, PMax: pmax}
	n := []int{0, 1, 2, 15, 16, 17, 31, 32, 33, 100, 1000, 1300}[r.intn(12)]
	payload := r.bytes(n)
	if n > 0 && r.chance(1, 3) {
		payload[0] = []byte{244, 12, 9, 7, 10, 0, 1}[r.intn(7)]
	}
	path := []string{"pkt", "str", "pp"}[r.intn(3)]
	if skipRcv && path == "pp" {
		path = "str"
	}
	wire, got, pan := 0, "-", 0
	ngot := -1
	func() {
		defer func() {
			if rec := recover(); rec != nil {
				pan = 1
			}
		}()
		switch path {
		case "pkt":
			snd.tr.take()
			if err := snd.m.SendBestEffort(to, payload); err != nil {
				got = "senderr"
				return
			}
			pk := snd.tr.take()
			if len(pk) != 1 {
				got = fmt.Sprintf("packets:%d", len(pk))
				return
			}
			wire = len(pk[0])
			rcv.ingest(strip(pk[0]))
			msgs := rcv.del.take()
			ngot = len(msgs)
			got = hexList(msgs)
		case "str":
			big := r.chance(1, 5)
			if big {
				payload = r.bytes(70000 + r.intn(3000))
			}
			data := captureStream(snd, func() { snd.m.SendReliable(to, payload) })
			wire = len(data)
			data = strip(data)
			ml.VerifHandleConn(rcv.m, newFragConn(data, randCuts(r, len(data))))
			msgs := rcv.del.take()
			ngot = len(msgs)
			got = hexList(msgs)
			if big {
				// long payloads are compared by digest
				g := rcv.del.take()
				_ = g
			}
		case "pp":
			// a full join over an in-memory duplex stream: both directions of push/pull
			snd.del.state = payload
			if r.chance(1, 40) {
				// a large application state: anything up to the documented 20 MiB cap must go through
				snd.del.state = r.bytes([]int{1<<20 - 1, 1 << 20, 1<<20 + 1, 3 << 20}[r.intn(4)])
				payload = snd.del.state
			}
			rcv.del.state = r.bytes(1 + r.intn(40))
			snd.del.meta = []byte("meta-S")
			a, b := net.Pipe()
			snd.tr.dial = func(addr string) (net.Conn, error) { return a, nil }
			done := make(chan struct{})
			go func() { ml.VerifHandleConn(rcv.m, b); close(done) }()
			_, jerr := snd.m.Join([]string{"R/10.0.0.1:7946"})
			<-done
			snd.tr.dial = nil
			ok := jerr == nil
			// receiver must hold the sender's user state exactly, and vice versa; both list each other
			rs, ss := rcv.del.merged, snd.del.merged
			ok = ok && len(rs) == 1 && bytes.Equal(rs[0], payload) == (len(payload) > 0 || len(rs[0]) == 0)
			if len(payload) == 0 {
				ok = jerr == nil && len(rs) == 0
			}
			ok = ok && len(ss) == 1 && bytes.Equal(ss[0], rcv.del.state)
			names := func(m *ml.Memberlist) string {
				var ns []string
				for _, n := range m.Members() {
					ns = append(ns, n.Name)
				}
				return strings.Join(ns, "+")
			}
			got = fmt.Sprintf("pp:%d:%s:%s", b2i(ok), names(snd.m), names(rcv.m))
		}
	}()
	pl := hx(payload)
	if len(payload) > 2000 {
		pl = fmt.Sprintf("D%d.%d", len(payload), digest(payload))
		if got != "-" && !strings.HasPrefix(got, "pp") && got != "senderr" {
			// digest form for long deliveries
			parts := strings.Split(got, ",")
			for i, p := range parts {
				if len(p) > 4000 {
					raw := make([]byte, len(p)/2)
					fmt.Sscanf(p, "%x", &raw)
					parts[i] = fmt.Sprintf("D%d.%d", len(raw), digest(raw))
				}
			}
			got = strings.Join(parts, ",")
		}
	}
	emit("C12 rt id=%s path=%s label=%d enc=%s comp=%d crc=%d len=%d payload=%s wire=%d got=%s ngot=%d panic=%d",
		id, path, len(c.label), enc, b2i(c.compress), b2i(crc), len(payload), pl, wire, got, ngot, pan)
}

func TestC12(t *testing.T) {
	n := envInt("VERIF_N", 1500)
	if thorough() {
		n = envInt("VERIF_N", 60000)
	}
	forCases(n, 121, "r", func(i int, r *rng, id string) { c12Rt(r, id) })
	forCases(2*n, 122, "m", func(i int, r *rng, id string) { c12Msgpack(r, id) })
	// what a node packs into its packets (gossip alone, or piggybacked on a ping/ack) is what the receiver unpacks
	forCases(n/5, 123, "p", func(i int, r *rng, id string) { pktLeg("C12", r, id) })
	forCases(n/3, 124, "a", func(i int, r *rng, id string) { c12AlivePort(r, id) })
	forCases(12, 125, "u", func(i int, r *rng, id string) { c12Udp(r, id) })
}

// c12AlivePort: an alive message received on the packet path keeps its port - except that a message without a
// port (or any message, on a receiver speaking a protocol version below 2) gets the receiver's configured port.
func c12AlivePort(r *rng, id string) { alivePortLeg("C12", r, id) }

// alivePortLeg also runs under C04: a member learned by gossip is probed at the port it advertised.
func alivePortLeg(prop string, r *rng, id string) {
	proto := uint8(1 + r.intn(5))
	rcv, err := newCnode(ccfg{name: "R", proto: proto})
	if err != nil {
		return
	}
	defer rcv.m.Shutdown()
	port := []uint16{0, 7946, 7947, 8301, 1, 65535}[r.intn(6)]
	vsn := []uint8{1, 5, proto, 0, 0, 0}
	body := ml.VerifEncodeAlive(uint32(1+r.intn(3)), "x", []byte{10, 0, 0, 5}, port, []byte("md"), vsn)
	pan := ml.VerifHandleQueued(rcv.m, 4, body[1:], fromAddr)
	got := -1
	for _, nd := range ml.VerifSnapshotState(rcv.m).Nodes {
		if nd.Name == "x" {
			got = int(nd.Port)
		}
	}
	emit("%s aliveport id=%s proto=%d bind=7946 port=%d got=%d panic=%d", prop, id, proto, port, got, b2i(pan))
}

// c12Udp: best-effort user messages of 1 byte to 12 kB arrive over the stock UDP transport while the application
// is busy with an earlier one; afterwards the delegate has received every payload byte for byte.
func c12Udp(r *rng, id string) {
	seed := r.next()
	var line string
	for attempt := 1; attempt <= 2; attempt++ {
		var missingOnly bool
		line, missingOnly = c12UdpOnce(&rng{s: seed | 1}, id, attempt)
		if line == "" || !missingOnly {
			break
		}
	}
	if line != "" {
		emit("%s", line)
	}
}

func c12UdpOnce(r *rng, id string, attempt int) (string, bool) {
	nt, err := ml.NewNetTransport(&ml.NetTransportConfig{BindAddrs: []string{"127.0.0.1"}, BindPort: 0, Logger: log.New(io.Discard, "", 0)})
	if err != nil {
		return "", false // no loopback sockets here
	}
	del := &userDel{block: make(chan struct{})}
	conf := ml.DefaultLANConfig()
	conf.Name = "R"
	conf.Transport = nt
	conf.AdvertiseAddr = "10.0.0.9"
	conf.AdvertisePort = 7946
	conf.BindPort = 7946
	conf.ProbeInterval = time.Hour
	conf.GossipInterval = 0
	conf.PushPullInterval = 0
	conf.Delegate = del
	conf.Logger = log.New(io.Discard, "", 0)
	m, err := ml.Create(conf)
	if err != nil {
		nt.Shutdown()
		return "", false
	}
	defer m.Shutdown()
	c, err := net.DialUDP("udp", nil, &net.UDPAddr{IP: net.IPv4(127, 0, 0, 1), Port: nt.GetAutoBindPort()})
	if err != nil {
		return "", false
	}
	defer c.Close()
	k := 3 + r.intn(5)
	want := map[string]int{}
	for i := 0; i < k; i++ {
		size := []int{1, 40, 900, 4095, 4096, 5000, 6000, 12000}[r.intn(8)]
		if i == 0 {
			size = 10 // the message the application is busy with
		}
		p := r.bytes(size)
		p[0] = byte(i)
		c.Write(append([]byte{8}, p...))
		want[string(p)]++
		time.Sleep(3 * time.Millisecond)
	}
	time.Sleep(30 * time.Millisecond)
	close(del.block)
	deadline := time.Now().Add(3 * time.Second)
	var got [][]byte
	for time.Now().Before(deadline) {
		got = append(got, del.take()...)
		if len(got) >= k && ml.VerifHandoffLen(m) == 0 {
			break
		}
		time.Sleep(5 * time.Millisecond)
	}
	wrong := 0
	for _, g := range got {
		if want[string(g)] > 0 {
			want[string(g)]--
		} else {
			wrong++
		}
	}
	missing := 0
	for _, c := range want {
		missing += c
	}
	return fmt.Sprintf("C12 udp id=%s attempt=%d sent=%d got=%d missing=%d wrong=%d extra=0", id, attempt, k, len(got), max(0, missing-wrong), wrong),
		missing > 0 && wrong == 0
}
