package harness

import (
	"encoding/hex"
	"fmt"
	"strings"

	ml "github.com/hashicorp/memberlist"
)

// The wire structs, field by field, in the order the encoder writes them (by field name); the Lean
// model has the same table (Swim/Model/Msgpack.lean `schema`) - a mismatch shows up as a disagreement.
// kinds: u = uint, i = int, s = string, b = bytes, t = bool
var wireSchemas = map[string][]string{
	"ping":           {"Node:s", "SeqNo:u32", "SourceAddr:b", "SourceNode:s", "SourcePort:u16"},
	"indirectPing":   {"Nack:t", "Node:s", "Port:u16", "SeqNo:u32", "SourceAddr:b", "SourceNode:s", "SourcePort:u16", "Target:b"},
	"ack":            {"Payload:b", "SeqNo:u32"},
	"nack":           {"SeqNo:u32"},
	"err":            {"Error:s"},
	"suspect":        {"From:s", "Incarnation:u32", "Node:s"},
	"dead":           {"From:s", "Incarnation:u32", "Node:s"},
	"alive":          {"Addr:b", "Incarnation:u32", "Meta:b", "Node:s", "Port:u16", "Vsn:b"},
	"pushPullHeader": {"Join:t", "Nodes:i", "UserStateLen:i"},
	"userMsgHeader":  {"UserMsgLen:i"},
	"pushNodeState":  {"Addr:b", "Incarnation:u32", "Meta:b", "Name:s", "Port:u16", "State:i", "Vsn:b"},
	"compress":       {"Algo:u8", "Buf:b"},
}

var wireKinds = []string{"ping", "indirectPing", "ack", "nack", "err", "suspect", "dead", "alive", "pushPullHeader", "userMsgHeader", "pushNodeState", "compress"}

func wireLen(r *rng) int {
	if r.chance(1, 60) {
		return []int{65535, 65536, 70001}[r.intn(3)]
	}
	return []int{0, 0, 1, 2, 4, 16, 31, 32, 33, 200, 255, 256, 300}[r.intn(13)]
}

func wireBytes(r *rng, n int) []byte {
	b := make([]byte, n)
	for i := range b {
		b[i] = byte(r.intn(256))
	}
	return b
}

func hexOrE(b []byte) string {
	if len(b) == 0 {
		return "E"
	}
	return hex.EncodeToString(b)
}

// wireField reads / writes one field of the flat record by name
func wireGetSet(w *ml.VerifWire, name string, set any) any {
	switch name {
	case "Node":
		if set != nil {
			w.Node = set.(string)
		}
		return w.Node
	case "From":
		if set != nil {
			w.From = set.(string)
		}
		return w.From
	case "SourceNode":
		if set != nil {
			w.SourceNode = set.(string)
		}
		return w.SourceNode
	case "Name":
		if set != nil {
			w.Name = set.(string)
		}
		return w.Name
	case "Error":
		if set != nil {
			w.Error = set.(string)
		}
		return w.Error
	case "Addr":
		if set != nil {
			w.Addr = set.([]byte)
		}
		return w.Addr
	case "Meta":
		if set != nil {
			w.Meta = set.([]byte)
		}
		return w.Meta
	case "Payload":
		if set != nil {
			w.Payload = set.([]byte)
		}
		return w.Payload
	case "Target":
		if set != nil {
			w.Target = set.([]byte)
		}
		return w.Target
	case "SourceAddr":
		if set != nil {
			w.SourceAddr = set.([]byte)
		}
		return w.SourceAddr
	case "Buf":
		if set != nil {
			w.Buf = set.([]byte)
		}
		return w.Buf
	case "Vsn":
		if set != nil {
			w.Vsn = set.([]byte)
		}
		return w.Vsn
	case "SeqNo":
		if set != nil {
			w.SeqNo = uint32(set.(uint64))
		}
		return uint64(w.SeqNo)
	case "Incarnation":
		if set != nil {
			w.Incarnation = uint32(set.(uint64))
		}
		return uint64(w.Incarnation)
	case "Port":
		if set != nil {
			w.Port = uint16(set.(uint64))
		}
		return uint64(w.Port)
	case "SourcePort":
		if set != nil {
			w.SourcePort = uint16(set.(uint64))
		}
		return uint64(w.SourcePort)
	case "Algo":
		if set != nil {
			w.Algo = uint8(set.(uint64))
		}
		return uint64(w.Algo)
	case "Nodes":
		if set != nil {
			w.Nodes = int(set.(uint64))
		}
		return uint64(w.Nodes)
	case "UserStateLen":
		if set != nil {
			w.UserStateLen = int(set.(uint64))
		}
		return uint64(w.UserStateLen)
	case "UserMsgLen":
		if set != nil {
			w.UserMsgLen = int(set.(uint64))
		}
		return uint64(w.UserMsgLen)
	case "State":
		if set != nil {
			w.State = int(set.(uint64))
		}
		return uint64(w.State)
	case "Nack":
		if set != nil {
			w.Nack = set.(bool)
		}
		return w.Nack
	case "Join":
		if set != nil {
			w.Join = set.(bool)
		}
		return w.Join
	}
	panic("unknown wire field " + name)
}

func wireShow(w *ml.VerifWire) string {
	var out []string
	for _, f := range wireSchemas[w.Kind] {
		nt := strings.SplitN(f, ":", 2)
		v := wireGetSet(w, nt[0], nil)
		switch nt[1][0] {
		case 's':
			out = append(out, hexOrE([]byte(v.(string))))
		case 'b':
			b := v.([]byte)
			if b == nil {
				out = append(out, "N")
			} else {
				out = append(out, hexOrE(b))
			}
		case 't':
			out = append(out, fmt.Sprint(b2i(v.(bool))))
		default:
			out = append(out, fmt.Sprint(v.(uint64)))
		}
	}
	return strings.Join(out, ";")
}

// c12Msgpack: one random message of one wire struct through the real encoder and decoder, plus one
// mutated copy of the encoding through the real decoder.
func c12Msgpack(r *rng, id string) {
	kind := wireKinds[r.intn(len(wireKinds))]
	w := ml.VerifWire{Kind: kind}
	for _, f := range wireSchemas[kind] {
		nt := strings.SplitN(f, ":", 2)
		switch nt[1] {
		case "s":
			wireGetSet(&w, nt[0], string(wireBytes(r, wireLen(r))))
		case "b":
			switch r.intn(6) {
			case 0:
				wireGetSet(&w, nt[0], []byte(nil))
			case 1:
				wireGetSet(&w, nt[0], []byte{})
			default:
				wireGetSet(&w, nt[0], wireBytes(r, wireLen(r)))
			}
		case "t":
			wireGetSet(&w, nt[0], r.chance(1, 2))
		case "u8":
			wireGetSet(&w, nt[0], uint64([]int{0, 1, 127, 128, 255}[r.intn(5)]))
		case "u16":
			wireGetSet(&w, nt[0], uint64([]int{0, 0, 1, 127, 128, 255, 256, 7946, 65535}[r.intn(9)]))
		case "u32":
			wireGetSet(&w, nt[0], []uint64{0, 1, 127, 128, 255, 256, 65535, 65536, 4294967295, uint64(r.intn(1 << 30))}[r.intn(10)])
		case "i":
			wireGetSet(&w, nt[0], []uint64{0, 1, 127, 128, 255, 32767, 32768, 65535, 65536, 2147483647, 2147483648, 1 << 40, 1<<63 - 1}[r.intn(13)])
		}
	}
	show := func(body []byte) string {
		res := "ERR"
		func() {
			defer func() {
				if rec := recover(); rec != nil {
					res = "PANIC"
				}
			}()
			d, err := ml.VerifWireDecode(kind, body)
			if err == nil {
				res = wireShow(&d)
			}
		}()
		return res
	}
	body, err := ml.VerifWireEncode(w)
	if err != nil {
		emit("C12 mp id=%s kind=%s err=encode", id, kind)
		return
	}
	mut, rmut, mk := "-", "-", "none"
	if len(body) > 0 && len(body) < 4000 {
		m := append([]byte(nil), body...)
		switch r.intn(3) {
		case 0:
			mk = "flip"
			m[r.intn(len(m))] ^= byte(1 << uint(r.intn(8)))
		case 1:
			mk = "set"
			m[r.intn(len(m))] = byte(r.intn(256))
		default:
			mk = "trunc"
			m = m[:r.intn(len(m))]
		}
		mut, rmut = hexOrE(m), show(m)
	}
	emit("C12 mp id=%s kind=%s vals=%s bytes=%s rdec=%s mk=%s mut=%s rmut=%s", id, kind, wireShow(&w), hex.EncodeToString(body), show(body), mk, mut, rmut)
}

// c09Ppf: the plaintext state exchange a real node writes for a Join (sendLocalState), next to the
// sender's own records and user state; the model parses it, re-encodes it and compares.
func c09Ppf(r *rng, id string) {
	snd, err := newCnode(ccfg{name: "S"})
	if err != nil {
		emit("C09 ppf id=%s err=create", id)
		return
	}
	defer snd.m.Shutdown()
	k := r.intn(8)
	for i := 0; i < k; i++ {
		name := string(wireBytes(r, []int{1, 2, 5, 31, 32, 40}[r.intn(6)]))
		if strings.ContainsAny(name, " =\n") || name == "S" {
			name = fmt.Sprintf("n%d", i)
		}
		var meta []byte
		switch r.intn(3) {
		case 1:
			meta = []byte{}
		case 2:
			meta = wireBytes(r, []int{1, 31, 32, 300, 512}[r.intn(5)])
		}
		inc := []uint32{1, 127, 128, 255, 256, 65535, 65536, 4294967295}[r.intn(8)]
		ml.VerifAliveNode(snd.m, inc, name, []byte{10, 0, byte(i), 1}, uint16([]int{1, 127, 128, 255, 256, 7946, 65535}[r.intn(7)]), meta,
			[]uint8{1, uint8(2 + r.intn(4)), 2, 0, uint8(r.intn(3)), 0}, nil, false)
		switch r.intn(4) {
		case 0:
			ml.VerifSuspectNode(snd.m, inc, name, "S")
		case 1:
			ml.VerifDeadNode(snd.m, inc, name, "S")
		case 2:
			ml.VerifDeadNode(snd.m, inc, name, name)
		}
	}
	switch r.intn(3) {
	case 0:
		snd.del.state = nil
	case 1:
		snd.del.state = []byte{}
	default:
		snd.del.state = wireBytes(r, []int{1, 127, 128, 300, 70000}[r.intn(5)])
	}
	data := captureStream(snd, func() { snd.m.Join([]string{"R/10.0.0.1:7946"}) })
	snap := ml.VerifSnapshotState(snd.m)
	var sts []string
	for _, n := range snap.Nodes {
		sts = append(sts, fmt.Sprintf("%s;%d;%s;%s;%d;%d;%s", hexOrE(n.Addr), n.Incarnation, hexOrE(n.Meta), hexOrE([]byte(n.Name)), n.Port, int(n.State), hexOrE(n.Vsn[:])))
	}
	st := "-"
	if len(sts) > 0 {
		st = strings.Join(sts, "|")
	}
	emit("C09 ppf id=%s states=%s user=%s stream=%s", id, st, hexOrE(snd.del.state), hx(data))
}

// rrsLeg: a plaintext state exchange with entries that carry a port, no port (0), and the configured port,
// through the real readRemoteState; what it hands to the merge is compared with the model.
func rrsLeg(prop string, r *rng, id string) {
	proto := uint8(2)
	if r.chance(1, 5) {
		proto = 1
	}
	n, err := newCnode(ccfg{name: "S", proto: proto})
	if err != nil {
		emit("%s rrs id=%s err=create", prop, id)
		return
	}
	defer n.m.Shutdown()
	k := r.intn(6)
	var body []byte
	user := wireBytes(r, []int{0, 0, 1, 40, 300}[r.intn(5)])
	body = append(body, ml.VerifEncodePushPullHeader(k, len(user), r.chance(1, 2))[1:]...)
	for i := 0; i < k; i++ {
		w := ml.VerifWire{Kind: "pushNodeState", Name: fmt.Sprintf("n%d", i), Addr: []byte{10, 0, byte(i), 1},
			Port: uint16([]int{0, 0, 7946, 7947, 1, 65535}[r.intn(6)]), Incarnation: uint32(1 + r.intn(300)),
			State: r.intn(4), Vsn: []byte{1, 5, 2, 0, 0, 0}}
		if r.chance(1, 2) {
			w.Meta = wireBytes(r, 1+r.intn(40))
		}
		b, _ := ml.VerifWireEncode(w)
		body = append(body, b...)
	}
	body = append(body, user...)
	got, ug := "ERR", "E"
	func() {
		defer func() {
			if rec := recover(); rec != nil {
				got = "PANIC"
			}
		}()
		_, nodes, u, err := ml.VerifReadRemoteState(n.m, body)
		if err != nil {
			return
		}
		var sts []string
		for _, x := range nodes {
			sts = append(sts, fmt.Sprintf("%s;%d;%s;%s;%d;%d;%s", hexOrE(x.Addr), x.Incarnation, hexOrE(x.Meta), hexOrE([]byte(x.Name)), x.Port, int(x.State), hexOrE(x.Vsn)))
		}
		got = "-"
		if len(sts) > 0 {
			got = strings.Join(sts, "|")
		}
		ug = hexOrE(u)
	}()
	emit("%s rrs id=%s proto=%d bind=7946 stream=%s got=%s user=%s", prop, id, proto, hexOrE(body), got, ug)
}
