package harness

// Shared plumbing of the correspondence harness: output file, seed, tier, PRNG.

import (
	"bufio"
	"encoding/hex"
	"fmt"
	"os"
	"strconv"
	"sync"
	"testing"
)

var (
	outMu sync.Mutex
	outW  *bufio.Writer
	outF  *os.File
)

func TestMain(m *testing.M) {
	path := os.Getenv("VERIF_OUT")
	if path != "" {
		f, err := os.Create(path)
		if err != nil {
			fmt.Fprintln(os.Stderr, "cannot create VERIF_OUT:", err)
			os.Exit(2)
		}
		outF = f
		outW = bufio.NewWriterSize(f, 1<<20)
	}
	code := m.Run()
	if outW != nil {
		outW.Flush()
		outF.Close()
	}
	os.Exit(code)
}

// emit writes one protocol line.
func emit(format string, args ...any) {
	outMu.Lock()
	defer outMu.Unlock()
	if outW == nil {
		fmt.Printf(format+"\n", args...)
		return
	}
	fmt.Fprintf(outW, format+"\n", args...)
}

// flushOut writes buffered lines through (before a likely kill)
func flushOut() {
	outMu.Lock()
	defer outMu.Unlock()
	if outW != nil {
		outW.Flush()
	}
}

func seed() uint64 {
	s := os.Getenv("VERIF_SEED")
	if s == "" {
		return 1
	}
	v, err := strconv.ParseUint(s, 10, 64)
	if err != nil {
		return 1
	}
	return v
}

func thorough() bool { return os.Getenv("VERIF_TIER") == "thorough" }

// envInt reads an integer knob (used by the targeted search to widen budgets).
func envInt(name string, def int) int {
	if s := os.Getenv(name); s != "" {
		if v, err := strconv.Atoi(s); err == nil {
			return v
		}
	}
	if name == "VERIF_N" {
		// the targeted search widens every generator by a factor instead of switching tier
		if s := os.Getenv("VERIF_MULT"); s != "" {
			if v, err := strconv.Atoi(s); err == nil && v > 0 {
				return def * v
			}
		}
	}
	return def
}

// rng is a splitmix64 generator: every random choice of a run derives from VERIF_SEED.
type rng struct{ s uint64 }

func newRng(seed uint64, stream uint64) *rng {
	return &rng{s: seed*0x9E3779B97F4A7C15 ^ (stream+1)*0xBF58476D1CE4E5B9}
}

func (r *rng) next() uint64 {
	r.s += 0x9E3779B97F4A7C15
	z := r.s
	z = (z ^ (z >> 30)) * 0xBF58476D1CE4E5B9
	z = (z ^ (z >> 27)) * 0x94D049BB133111EB
	return z ^ (z >> 31)
}

func (r *rng) intn(n int) int {
	if n <= 0 {
		return 0
	}
	return int(r.next() % uint64(n))
}

func (r *rng) chance(num, den int) bool { return r.intn(den) < num }

func (r *rng) bytes(n int) []byte {
	b := make([]byte, n)
	for i := range b {
		b[i] = byte(r.next())
	}
	return b
}

// forCases runs case 0..n-1 of a generator family. Every case owns a PRNG derived from
// (VERIF_SEED, stream, index), so a single case replays exactly (VERIF_ONLY=<id>), and
// cases shard across processes (VERIF_SHARD=k/n).
func forCases(n int, stream uint64, tag string, f func(i int, r *rng, id string)) {
	only := os.Getenv("VERIF_ONLY")
	sh, nsh := 0, 1
	if s := os.Getenv("VERIF_SHARD"); s != "" {
		fmt.Sscanf(s, "%d/%d", &sh, &nsh)
		if nsh < 1 {
			sh, nsh = 0, 1
		}
	}
	for i := 0; i < n; i++ {
		id := fmt.Sprintf("%d:%s%d", seed(), tag, i)
		if only != "" {
			if only != id {
				continue
			}
		} else if i%nsh != sh {
			continue
		}
		f(i, newRng(seed()^(uint64(i)+1)*0xD6E8FEB86659FD93, stream), id)
	}
}

func envOnly() string { return os.Getenv("VERIF_ONLY") }

func shard() (int, int) {
	sh, nsh := 0, 1
	if s := os.Getenv("VERIF_SHARD"); s != "" {
		fmt.Sscanf(s, "%d/%d", &sh, &nsh)
		if nsh < 1 {
			sh, nsh = 0, 1
		}
	}
	return sh, nsh
}

func hx(b []byte) string {
	if len(b) == 0 {
		return "-"
	}
	return hex.EncodeToString(b)
}
