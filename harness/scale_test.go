package harness

import (
	"fmt"
	"strings"
	"sync/atomic"
	"time"

	ml "github.com/hashicorp/memberlist"
)

// scaleLeg: the float computations of util.go against the integer models, over whole ranges of the
// cluster size (digest per block) and at the powers of ten and two (±2) below 10^14.
func scaleLeg(prop, fn string, r *rng, id string, blocks int) {
	mult := 1 + r.intn(8)
	interval := []int{1, 1000, 30000, 1000000000}[r.intn(4)]
	val := func(n int) uint64 {
		switch fn {
		case "retransmit":
			return uint64(ml.VerifRetransmitLimit(mult, n))
		case "pushpull":
			return uint64(ml.VerifPushPullScale(time.Duration(interval), n))
		default:
			return uint64(ml.VerifSuspicionTimeout(mult, n, time.Duration(interval)))
		}
	}
	if fn != "susp" {
		// consecutive blocks of 50 000 sizes starting at 0: the first 60 blocks cover 0..3 000 000
		blk := r.intn(blocks)
		from, to := blk*50000, blk*50000+49999
		d := uint64(0)
		for n := from; n <= to; n++ {
			d = (d*31 + val(n) + 1) % 1000000007
		}
		emit("%s scale id=%s fn=%s mult=%d interval=%d from=%d to=%d digest=%d", prop, id, fn, mult, interval, from, to, d)
		return
	}
	var ns, vs []string
	add := func(n int) {
		if n >= 0 {
			ns = append(ns, fmt.Sprint(n))
			vs = append(vs, fmt.Sprint(val(n)))
		}
	}
	for n := 0; n <= 40; n++ {
		add(n)
	}
	for i := 0; i < 40; i++ {
		add(r.intn(1 << uint(1+r.intn(21))))
	}
	for p := 10; p <= 10000000; p *= 10 {
		add(p - 1)
		add(p)
		add(p + 1)
	}
	emit("%s scale id=%s fn=susp mult=%d interval=%d ns=%s vals=%s", prop, id, mult, interval, strings.Join(ns, ","), strings.Join(vs, ","))
}

// scalePoints: powers of ten and of two, ±2, below 10^14
func scalePoints(prop, fn string, id string) {
	var ns, vs []string
	add := func(n int) {
		if n < 0 || n >= 100000000000000 {
			return
		}
		ns = append(ns, fmt.Sprint(n))
		if fn == "retransmit" {
			vs = append(vs, fmt.Sprint(ml.VerifRetransmitLimit(3, n)))
		} else {
			vs = append(vs, fmt.Sprint(int64(ml.VerifPushPullScale(time.Duration(7), n))))
		}
	}
	for p := 1; p < 100000000000000; p *= 10 {
		for d := -2; d <= 2; d++ {
			add(p + d)
		}
	}
	for p := 1; p < 100000000000000; p *= 2 {
		for d := -2; d <= 2; d++ {
			add(p + d)
		}
	}
	m, iv := 3, 1
	if fn != "retransmit" {
		m, iv = 1, 7
	}
	emit("%s scale id=%s fn=%s mult=%d interval=%d ns=%s vals=%s", prop, id, fn, m, iv, strings.Join(ns, ","), strings.Join(vs, ","))
}

// lockStir: membership updates (node lock, then the broadcast queue) on one goroutine against broadcast
// retrieval for outgoing packets (queue, with its cluster-size callback) and the query API on others.
// Whatever the interleaving, every goroutine must come back: a cycle in the lock order shows as a stall.
func lockStir(prop string, r *rng, id string) {
	n, err := newCnode(ccfg{name: "n0"})
	if err != nil {
		return
	}
	m := n.m
	vsn := []uint8{1, 5, 2, 0, 0, 0}
	peers := 2 + r.intn(12)
	for i := 1; i <= peers; i++ {
		ml.VerifAliveNode(m, 1, fmt.Sprintf("n%d", i), []byte{10, 0, 0, byte(i)}, 7946, nil, vsn, nil, false)
	}
	to := &ml.Node{Name: "n1", Addr: []byte{10, 0, 0, 1}, Port: 7946, PMax: 5}
	var stop atomic.Bool
	var exited atomic.Int32
	var rounds [4]atomic.Int64
	work := []func(k uint32){
		func(k uint32) {
			ml.VerifAliveNode(m, 2+k, fmt.Sprintf("n%d", 1+int(k)%peers), []byte{10, 0, 0, byte(1 + int(k)%peers)}, 7946, []byte{byte(k)}, vsn, nil, false)
		},
		func(k uint32) { ml.VerifGetBroadcasts(m, 2, 1400) },
		func(k uint32) { m.SendBestEffort(to, []byte("x")); n.tr.take() },
		func(k uint32) {
			m.NumMembers()
			ml.VerifSuspectNode(m, 2+k, fmt.Sprintf("n%d", 1+int(k)%peers), "n0")
		},
	}
	for g := range work {
		go func(g int) {
			defer func() { recover(); exited.Add(1) }()
			for k := uint32(0); !stop.Load(); k++ {
				work[g](k)
				rounds[g].Add(1)
			}
		}(g)
	}
	time.Sleep(time.Duration(30+r.intn(40)) * time.Millisecond)
	stop.Store(true)
	stalled := 0
	for i := 0; i < 300 && int(exited.Load()) < len(work); i++ {
		time.Sleep(10 * time.Millisecond)
	}
	if int(exited.Load()) < len(work) {
		stalled = len(work) - int(exited.Load())
	}
	emit("%s lockstir id=%s peers=%d rounds=%d.%d.%d.%d stalled=%d", prop, id, peers, rounds[0].Load(), rounds[1].Load(), rounds[2].Load(), rounds[3].Load(), stalled)
	if stalled == 0 {
		m.Shutdown()
	}
}
