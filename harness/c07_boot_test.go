package harness

// The start-up window: Create starts the listeners (newMemberlist) before it records the node itself (setAlive).
// A packet that is already waiting - gossip about the node's previous life - is handled in between.

import (
	"fmt"
	"io"
	"log"
	"net"
	"sort"
	"strings"
	"sync"
	"testing"
	"time"

	ml "github.com/hashicorp/memberlist"
)

// bootTransport delivers one packet as soon as the listeners run and holds setAlive back (its second request for
// the advertised address) until that packet has had time to be handled.
type bootTransport struct {
	*capTransport
	mu    sync.Mutex
	calls int
	hold  time.Duration
}

func (t *bootTransport) FinalAdvertiseAddr(ip string, port int) (net.IP, int, error) {
	t.mu.Lock()
	t.calls++
	c := t.calls
	t.mu.Unlock()
	if c == 2 {
		time.Sleep(t.hold)
	}
	return t.capTransport.FinalAdvertiseAddr(ip, port)
}

type bootEvents struct {
	mu  sync.Mutex
	log []string
}

func (e *bootEvents) add(s string) { e.mu.Lock(); e.log = append(e.log, s); e.mu.Unlock() }
func (e *bootEvents) NotifyJoin(n *ml.Node) {
	e.add("j/" + n.Name)
}
func (e *bootEvents) NotifyLeave(n *ml.Node)  { e.add("l/" + n.Name) }
func (e *bootEvents) NotifyUpdate(n *ml.Node) { e.add("u/" + n.Name) }

func c07Boot(r *rng, id string) {
	tr := &bootTransport{capTransport: newCapTransport(), hold: 60 * time.Millisecond}
	ev := &bootEvents{}
	conf := ml.DefaultLANConfig()
	conf.Name = "S"
	conf.Transport = tr
	conf.AdvertiseAddr = "10.0.0.9"
	conf.AdvertisePort = 7946
	conf.BindPort = 7946
	conf.ProbeInterval = time.Hour
	conf.GossipInterval = 0
	conf.PushPullInterval = 0
	conf.Events = ev
	conf.Logger = log.New(io.Discard, "", 0)
	// what is waiting: an alive message about this node (its previous life, as a peer still gossips it) or about another member
	about := []string{"S", "S", "p1"}[r.intn(3)]
	inc := uint32(r.intn(4))
	meta := [][]byte{nil, []byte("old-life")}[r.intn(2)]
	addr := []byte{10, 0, 0, 9}
	if about != "S" {
		addr = []byte{10, 0, 0, 7}
	}
	msg := ml.VerifEncodeAlive(inc, about, addr, 7946, meta, []uint8{1, 5, 2, 0, 0, 0})
	go func() {
		// (the channel is unbuffered: this is taken as soon as packetListen runs)
		tr.pktCh <- &ml.Packet{Buf: msg, From: fromAddr, Timestamp: time.Now()}
	}()
	m, err := ml.Create(conf)
	if err != nil {
		return
	}
	defer m.Shutdown()
	time.Sleep(20 * time.Millisecond)
	var names []string
	for _, n := range m.Members() {
		names = append(names, n.Name)
	}
	sort.Strings(names)
	ev.mu.Lock()
	evs := strings.Join(ev.log, ",")
	ev.mu.Unlock()
	if evs == "" {
		evs = "-"
	}
	emit("C07 boot id=%s about=%s inc=%d events=%s members=%s", id, about, inc, evs, strings.Join(names, "+"))
}

var _ = fmt.Sprint
var _ testing.T
