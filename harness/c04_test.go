package harness

import (
	"fmt"
	"io"
	"log"
	"net"
	"sort"
	"strings"
	"sync"
	"testing"
	"time"

	ml "github.com/hashicorp/memberlist"
)

// C04: healthy clusters - every packet delivered within half the probe timeout, every listed node
// responsive - under joins, metadata updates, graceful leaves (the leaver keeps running) and
// user broadcasts. Nothing may be suspected, no foreign dead claim may appear, scores stay 0.
func c04Healthy(r *rng, id string) {
	n := 3 + r.intn(8)
	c := defaultSimCfg()
	c.indirect = []int{0, 1, 3}[r.intn(3)]
	c.tcpPings = r.chance(1, 2)
	c.pushPull = []time.Duration{5 * time.Second, 15 * time.Second}[r.intn(2)]
	c.mixedProto = r.chance(1, 2)
	// encrypted clusters: current format, or the first format (protocol version 1, padded blocks)
	enc := []string{"n", "n", "1", "0"}[r.intn(4)]
	if enc != "n" {
		c.key = mkKey(r, []int{16, 24, 32}[r.intn(3)])
		c.label = []string{"", "sim"}[r.intn(2)]
		if enc == "0" {
			c.proto, c.mixedProto = 1, false
			c.padNames = 1 + r.intn(16)
		}
	}
	// slow sends: the sending goroutine comes back from the transport later than the answer
	slow := r.chance(1, 4)
	if slow {
		c.indirect = []int{0, 0, 1}[r.intn(3)]
		c.tcpPings = r.chance(1, 4)
	}
	// a node-aware transport that routes by the name in the address (acks, relays and fallback pings must name their addressee)
	c.routeByName = r.chance(1, 3)
	cl, err := newSimCluster(r, n, c)
	if err != nil {
		emit("C04 sim id=%s err=create", id)
		return
	}
	cl.net.latMin = 0
	cl.net.latMax = c.probeTimeout/2 - time.Millisecond
	if r.chance(1, 3) {
		cl.net.latMin = cl.net.latMax - time.Millisecond // everything at the bound
	}
	if slow {
		cl.net.latMin, cl.net.latMax = 0, time.Duration(1+r.intn(3))*time.Millisecond
		cl.net.slowReturn = time.Duration(8+r.intn(8)) * time.Millisecond
	}
	var accusations []string
	leavers := map[string]bool{}
	cl.net.tap = func(src, dst string, buf []byte) {
		for _, p := range simParts(buf) {
			if len(p) > 0 && p[0] == 3 {
				accusations = append(accusations, fmt.Sprintf("suspect@%dms:%s->%s", cl.since().Milliseconds(), src, dst))
			}
		}
	}
	mon := cl.startMonitor()
	failed := cl.joinAll(300 * time.Millisecond)
	// operations over 40 virtual seconds
	horizon := 40 * time.Second
	var ops []string
	var pending sync.WaitGroup // Leave must not be overtaken by the final Shutdown (documented panic)
	for cl.since() < horizon {
		time.Sleep(time.Duration(200+r.intn(1500)) * time.Millisecond)
		nd := cl.nodes[r.intn(n)]
		switch r.intn(6) {
		case 0:
			if !nd.left {
				nd.meta = []byte(fmt.Sprintf("m%d-%s", r.intn(1000), nd.name))
				go nd.m.UpdateNode(2 * time.Second)
				ops = append(ops, "update:"+nd.name)
			}
		case 1:
			if !nd.left && len(leavers) < n/3 {
				nd.left = true
				leavers[nd.name] = true
				pending.Add(1)
				go func() { defer pending.Done(); nd.m.Leave(2 * time.Second) }()
				ops = append(ops, "leave:"+nd.name)
			}
		case 3:
			// a burst of tiny user broadcasts around the one-byte part count of a compound message
			if !nd.left {
				k := []int{255, 255, 254, 256, 100, 300}[r.intn(6)]
				nd.queueBurst(k)
				ops = append(ops, fmt.Sprintf("burst%d:%s", k, nd.name))
			}
		case 2:
			tgt := cl.nodes[r.intn(n)]
			if !tgt.left && !nd.left && tgt != nd {
				for _, mem := range nd.m.Members() {
					if mem.Name == tgt.name {
						nd.m.SendBestEffort(mem, []byte("hello"))
					}
				}
			}
		}
		for _, x := range cl.nodes {
			x.sampleScore()
		}
	}
	pending.Wait()
	// verdict inputs
	var bad []string
	if len(accusations) > 0 {
		bad = append(bad, "suspicion-on-the-wire:"+accusations[0])
	}
	for _, nd := range cl.nodes {
		if nd.maxScore > 0 {
			bad = append(bad, fmt.Sprintf("health-score-%d:%s", nd.maxScore, nd.name))
		}
		nd.mu.Lock()
		for _, e := range nd.events {
			if e.kind == "leave" && !leavers[e.name] {
				bad = append(bad, fmt.Sprintf("leave-event-for-live-member:%s@%s", e.name, nd.name))
			}
			if e.kind == "conflict" {
				bad = append(bad, "conflict:"+e.name+"@"+nd.name)
			}
		}
		if len(nd.badLog) > 0 {
			bad = append(bad, "event-log:"+nd.badLog[0]+"@"+nd.name)
		}
		nd.mu.Unlock()
		if nd.overlap.Load() > 0 {
			bad = append(bad, "concurrent-callbacks@"+nd.name)
		}
		for _, s := range ml.VerifSnapshotState(nd.m).Nodes {
			if s.State == ml.StateSuspect || s.State == ml.StateDead {
				bad = append(bad, fmt.Sprintf("record-%s-is-%s@%s", s.Name, stLetter[s.State], nd.name))
			}
		}
		// the event log replays to Members()
		if !nd.left && strings.Join(nd.viewNames(), "+") != strings.Join(nd.members(), "+") {
			bad = append(bad, "event-log-differs-from-members@"+nd.name)
		}
	}
	// everybody still running lists exactly the non-leavers (self included unless it left)
	var expect []string
	for _, nd := range cl.nodes {
		if !nd.left {
			expect = append(expect, nd.name)
		}
	}
	sort.Strings(expect)
	conv := 1
	for _, nd := range cl.nodes {
		if nd.left {
			continue
		}
		if strings.Join(nd.members(), "+") != strings.Join(expect, "+") {
			conv = 0
		}
	}
	inv := mon.verdict(cl.nodes)
	cl.shutdownAll()
	bs := "-"
	if len(bad) > 0 {
		if len(bad) > 5 {
			bad = bad[:5]
		}
		bs = strings.Join(bad, ",")
	}
	emit("C04 sim id=%s n=%d enc=%s slow=%d indirect=%d tcp=%d latmax=%d joinfail=%d ops=%d leavers=%d sent=%d converged=%d inv=%s claims=%d bad=%s",
		id, n, enc, cl.net.slowReturn.Milliseconds(), c.indirect, b2i(c.tcpPings), cl.net.latMax.Milliseconds(), failed, len(ops), len(leavers), cl.net.sent, conv, inv, mon.total, bs)
}

func TestC04(t *testing.T) {
	forCases(12, 44, "u", func(i int, r *rng, id string) { c04Udp(r, id) })
	forCases(6, 43, "x", func(i int, r *rng, id string) { lockStir("C04", r, id) })
	n := envInt("VERIF_N", 60)
	if thorough() {
		n = envInt("VERIF_N", 4000)
	}
	forCases(n, 41, "s", func(i int, r *rng, id string) {
		bubble(t, "C04", id, func() { c04Healthy(r, id) })
	})
	// members on other ports than the node's own (several agents on one host): a member learned by gossip
	// keeps the port it advertised - that is where it is probed
	forCases(200, 45, "a", func(i int, r *rng, id string) { alivePortLeg("C04", r, id) })
}

// c04Udp: a healthy burst over the stock UDP transport (real loopback sockets): K alive messages about K
// different new members arrive while the node is busy (the handler waits for the membership lock), so they
// sit in the handoff queue for a moment. Once the node catches up it must know exactly those K members, each
// with the address and metadata its own message carried - nobody's message may be lost to, or rewritten by,
// a later packet.
func c04Udp(r *rng, id string) {
	// a datagram lost by the kernel would look like a lost message: a run with members missing (and nothing
	// else wrong) is repeated once with the same messages, and only a repeated loss is reported
	seed := r.next()
	var line string
	for attempt := 1; attempt <= 2; attempt++ {
		var missingOnly bool
		line, missingOnly = c04UdpOnce(&rng{s: seed | 1}, id, attempt)
		if line == "" || !missingOnly {
			break
		}
	}
	if line != "" {
		emit("%s", line)
	}
}

func c04UdpOnce(r *rng, id string, attempt int) (string, bool) {
	nt, err := ml.NewNetTransport(&ml.NetTransportConfig{BindAddrs: []string{"127.0.0.1"}, BindPort: 0, Logger: log.New(io.Discard, "", 0)})
	if err != nil {
		return "", false // no loopback sockets here
	}
	conf := ml.DefaultLANConfig()
	conf.Name = "R"
	conf.Transport = nt
	conf.AdvertiseAddr = "10.0.0.9"
	conf.AdvertisePort = 7946
	conf.BindPort = 7946
	conf.ProbeInterval = time.Hour
	conf.GossipInterval = 0
	conf.PushPullInterval = 0
	conf.Logger = log.New(io.Discard, "", 0)
	m, err := ml.Create(conf)
	if err != nil {
		nt.Shutdown()
		return "", false
	}
	defer m.Shutdown()
	c, err := net.DialUDP("udp", nil, &net.UDPAddr{IP: net.IPv4(127, 0, 0, 1), Port: nt.GetAutoBindPort()})
	if err != nil {
		return "", false
	}
	defer c.Close()
	k := 3 + r.intn(6)
	vsn := []uint8{1, 5, 2, 0, 0, 0}
	want := map[string]string{}
	ml.VerifWithNodeLock(m, func() {
		for i := 0; i < k; i++ {
			// later names are shorter than earlier ones half of the time (a shorter message fits inside a longer one)
			name := fmt.Sprintf("m%d-%s", i, strings.Repeat("x", []int{30, 20, 12, 6, 2, 0, 25, 9, 1}[(i+r.intn(3))%9]))
			meta := fmt.Sprintf("meta-%d", i)
			addr := []byte{10, 1, byte(i), 1}
			c.Write(ml.VerifEncodeAlive(uint32(1+i), name, addr, 7946, []byte(meta), vsn))
			want[name] = fmt.Sprintf("%x/%s/%d", addr, meta, 1+i)
			time.Sleep(2 * time.Millisecond)
		}
		time.Sleep(20 * time.Millisecond)
	})
	deadline := time.Now().Add(3 * time.Second)
	got := map[string]string{}
	for time.Now().Before(deadline) {
		got = map[string]string{}
		for _, nd := range ml.VerifSnapshotState(m).Nodes {
			if nd.Name != "R" {
				got[nd.Name] = fmt.Sprintf("%x/%s/%d", nd.Addr, nd.Meta, nd.Incarnation)
			}
		}
		if len(got) >= k && ml.VerifHandoffLen(m) == 0 {
			break
		}
		time.Sleep(5 * time.Millisecond)
	}
	missing, wrong, extra := 0, 0, 0
	for n, w := range want {
		if g, ok := got[n]; !ok {
			missing++
		} else if g != w {
			wrong++
		}
	}
	for n := range got {
		if _, ok := want[n]; !ok {
			extra++
		}
	}
	return fmt.Sprintf("C04 udp id=%s attempt=%d sent=%d known=%d missing=%d wrong=%d extra=%d", id, attempt, k, len(got), missing, wrong, extra),
		missing > 0 && wrong == 0 && extra == 0
}
