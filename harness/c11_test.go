package harness

import (
	"fmt"
	"sort"
	"strings"
	"testing"

	ml "github.com/hashicorp/memberlist"
)

type seg struct{ l, fill, k int }

func segMsgs(segs []seg) [][]byte {
	var out [][]byte
	for _, s := range segs {
		for i := 0; i < s.k; i++ {
			b := make([]byte, s.l)
			for j := range b {
				b[j] = byte(s.fill)
			}
			out = append(out, b)
		}
	}
	return out
}

func c11Cmp(r *rng, id string) {
	var segs []seg
	total := []int{0, 1, 2, 3, 10, 254, 255, 256, 257, 300, 511, 600}[r.intn(12)]
	rem := total
	for rem > 0 {
		k := 1 + r.intn(rem)
		if r.chance(1, 2) {
			k = 1 + r.intn(1+rem/4)
		}
		l := []int{0, 1, 2, 5, 17, 30, 255, 256}[r.intn(8)]
		if total <= 3 && r.chance(1, 3) {
			l = []int{65534, 65535, 65536, 70000}[r.intn(4)]
		}
		segs = append(segs, seg{l, r.intn(256), k})
		rem -= k
	}
	msgs := segMsgs(segs)
	var ss []string
	for _, s := range segs {
		ss = append(ss, fmt.Sprintf("%d:%d*%d", s.l, s.fill, s.k))
	}
	if len(ss) == 0 {
		ss = []string{"-"}
	}
	var outs, decs []string
	panicked := ""
	func() {
		defer func() {
			if rec := recover(); rec != nil {
				panicked = " panic=1"
			}
		}()
		for _, c := range ml.VerifMakeCompoundMessages(msgs) {
			outs = append(outs, fmt.Sprintf("%d:%d", len(c), digest(c)))
			trunc, parts, err := ml.VerifDecodeCompoundMessage(c[1:])
			var all []byte
			for _, p := range parts {
				all = append(all, p...)
			}
			e := 0
			if err != nil {
				e = 1
			}
			decs = append(decs, fmt.Sprintf("%d:%d:%d:%d:%d", e, trunc, len(parts), len(all), digest(all)))
		}
	}()
	j := func(x []string) string {
		if len(x) == 0 {
			return "-"
		}
		return strings.Join(x, ";")
	}
	emit("C11 cmp id=%s msgs=%s outs=%s dec=%s%s", id, strings.Join(ss, ","), j(outs), j(decs), panicked)
}

// decodeCase: hostile/truncated input to decodeCompoundMessage, compared byte-exactly with the model
func c11Dec(r *rng, id string) {
	msgs := segMsgs([]seg{{r.intn(6), r.intn(256), r.intn(5)}, {r.intn(20), r.intn(256), r.intn(4)}})
	buf := ml.VerifMakeCompoundMessage(msgs)[1:]
	switch r.intn(4) {
	case 0:
		if len(buf) > 0 {
			buf = buf[:r.intn(len(buf)+1)]
		}
	case 1:
		if len(buf) > 0 {
			buf[r.intn(len(buf))] = byte(r.intn(256))
		}
	case 2:
		buf = r.bytes(r.intn(12))
	}
	res := ""
	func() {
		defer func() {
			if rec := recover(); rec != nil {
				res = "panic"
			}
		}()
		trunc, parts, err := ml.VerifDecodeCompoundMessage(append([]byte(nil), buf...))
		if err != nil {
			if strings.Contains(err.Error(), "missing compound length") {
				res = "err:missingLen"
			} else {
				res = "err:truncLens"
			}
			return
		}
		res = fmt.Sprintf("ok:%d:%s", trunc, hexList(parts))
	}()
	emit("C11 dec id=%s buf=%s res=%s", id, hx(buf), res)
}

func tok(b []byte) string { return fmt.Sprintf("%d.%d", len(b), digest(b)) }

func c11Pkt(r *rng, id string) { pktLeg("C11", r, id) }

// pktLeg: a real sender packs its queues into packets, a real receiver unpacks them (also run under C12).
func pktLeg(prop string, r *rng, id string) {
	c := ccfg{udp: []int{512, 1400, 1400, 2000, 9000, 508, 1404, 1413}[r.intn(8)], label: labelOf([]int{0, 0, 1, 7, 255}[r.intn(5)]),
		compress: r.chance(1, 4), verifyIn: true, verifyOut: true, proto: 2}
	// the stages of a rolling encryption enablement: a keyring with outgoing and incoming verification
	// switched independently
	if r.chance(1, 3) {
		c.verifyIn, c.verifyOut = r.chance(1, 2), r.chance(1, 2)
	}
	enc := "n"
	switch r.intn(3) {
	case 1:
		c.key, c.proto, enc = mkKey(r, 16), 1, "0"
	case 2:
		c.key, enc = mkKey(r, []int{16, 24, 32}[r.intn(3)]), "1"
	}
	snd, err := newCnode(c)
	if err != nil {
		emit("%s pkt id=%s err=create", prop, id)
		return
	}
	defer snd.m.Shutdown()
	rc := c
	rc.name = "R"
	rc.verifyIn = c.verifyOut // the receiver accepts what this sender produces
	rcv, err := newCnode(rc)
	if err != nil {
		emit("%s pkt id=%s err=create", prop, id)
		return
	}
	defer rcv.m.Shutdown()
	crc := r.chance(1, 2)
	pmax := uint8(4)
	if crc {
		pmax = 5
	}
	// the peer "P" at 10.0.0.1 (its name is the IP string so that sendMsg finds it, too)
	peerName := "10.0.0.1"
	ml.VerifAliveNode(snd.m, 1, peerName, []byte{10, 0, 0, 1}, 7946, nil, []uint8{1, pmax, 2, 0, 0, 0}, nil, false)
	ml.VerifResetBroadcasts(snd.m)
	// queue content
	var sent [][]byte
	uid := 0
	mk := func(l int) []byte {
		b := make([]byte, l)
		for j := range b {
			b[j] = byte(uid + j)
		}
		if l >= 2 {
			b[0], b[1] = byte(uid), byte(uid>>8)
		}
		uid++
		return b
	}
	nMember := []int{0, 1, 3, 30, 80}[r.intn(5)]
	for i := 0; i < nMember; i++ {
		p := mk([]int{1, 5, 20, 40, 100, 300, c.udp - 60, c.udp}[r.intn(8)])
		msg := append([]byte{8}, p...) // a user-type message in the membership queue
		ml.VerifQueueBroadcast(snd.m, fmt.Sprintf("m%d", i), msg)
		sent = append(sent, p)
	}
	nUser := []int{0, 0, 2, 40, 300, 700}[r.intn(6)]
	picked := map[int]bool{}
	var userMsgs [][]byte
	// a quarter of the runs: only tiny messages, so that several hundred parts fit into one packet budget
	tiny := r.chance(1, 4)
	for i := 0; i < nUser; i++ {
		p := mk([]int{0, 1, 2, 3, 10, 50}[r.intn(6)])
		if tiny {
			p = mk(r.intn(3))
		}
		userMsgs = append(userMsgs, p)
		idx := i
		snd.del.q.QueueBroadcast(&finB{ubc{p}, func() { picked[idx] = true }})
	}
	before := map[string][]byte{}
	for _, b := range ml.VerifBroadcasts(snd.m) {
		before[b.QName] = b.Raw
	}
	op := "g"
	prim := 0
	snd.tr.take()
	panicked := false
	func() {
		defer func() {
			if rec := recover(); rec != nil {
				panicked = true
			}
		}()
		if r.chance(1, 2) {
			ml.VerifGossip(snd.m)
		} else {
			op = "s"
			ping, _ := ml.VerifEncode(0, 7, "", nil)
			prim = len(ping)
			ml.VerifSendMsg(snd.m, ml.Address{Addr: "10.0.0.1:7946", Name: peerName}, ping)
		}
	}()
	pkts := snd.tr.take()
	after := map[string]bool{}
	for _, b := range ml.VerifBroadcasts(snd.m) {
		after[b.QName] = true
	}
	var pickedToks, lens []string
	for name, raw := range before {
		if !after[name] {
			pickedToks = append(pickedToks, tok(raw[1:]))
			lens = append(lens, fmt.Sprint(len(raw)))
		}
	}
	for i, p := range userMsgs {
		if picked[i] {
			pickedToks = append(pickedToks, tok(p))
			lens = append(lens, fmt.Sprint(len(p)+1))
		}
	}
	sort.Strings(pickedToks)
	var wire []string
	rpanic := false
	for _, p := range pkts {
		wire = append(wire, fmt.Sprint(len(p)))
		if rcv.ingest(p) {
			rpanic = true
		}
	}
	var gotToks []string
	for _, g := range rcv.del.take() {
		gotToks = append(gotToks, tok(g))
	}
	sort.Strings(gotToks)
	j := func(x []string) string {
		if len(x) == 0 {
			return "-"
		}
		return strings.Join(x, ",")
	}
	emit("%s pkt id=%s udp=%d label=%d enc=%s vin=%d vout=%d comp=%d crc=%d op=%s prim=%d lens=%s wire=%s picked=%s got=%s panic=%d", prop,
		id, c.udp, len(c.label), enc, b2i(c.verifyIn), b2i(c.verifyOut), b2i(c.compress), b2i(crc), op, prim, j(lens), j(wire), j(pickedToks), j(gotToks), b2i(panicked || rpanic))
}

type finB struct {
	ubc
	fin func()
}

func (b *finB) Finished() { b.fin() }

func TestC11(t *testing.T) {
	n := envInt("VERIF_N", 600)
	if thorough() {
		n = envInt("VERIF_N", 30000)
	}
	forCases(n, 111, "c", func(i int, r *rng, id string) { c11Cmp(r, id) })
	forCases(4*n, 112, "d", func(i int, r *rng, id string) { c11Dec(r, id) })
	forCases(n, 113, "p", func(i int, r *rng, id string) { c11Pkt(r, id) })
}
