package harness

import (
	"bytes"
	"fmt"
	"io"
	"strings"
	"testing"

	ml "github.com/hashicorp/memberlist"
)

func lblErr(err error) string {
	s := err.Error()
	switch {
	case strings.Contains(s, "too long"):
		return "err:tooLong"
	case strings.Contains(s, "truncated"):
		return "err:truncated"
	case strings.Contains(s, "cannot be empty"):
		return "err:emptyLabel"
	}
	return "err:other"
}

func c16Lbl(r *rng, id string) {
	ll := []int{0, 1, 2, 7, 254, 255, 256, 300}[r.intn(8)]
	label := strings.Repeat(string(rune('a'+r.intn(20))), ll)
	if r.chance(1, 5) {
		// a label with characters outside ASCII (several bytes each): sizes are in bytes
		unit := []string{"é", "ü", "日", "dc-zürich-"}[r.intn(4)]
		label = strings.Repeat(unit, []int{1, 2, 5, 40, 85, 127}[r.intn(6)])
		ll = len(label)
	}
	var buf []byte
	switch r.intn(5) {
	case 0:
	case 1:
		buf = append([]byte{244}, r.bytes(r.intn(6))...)
	default:
		buf = r.bytes(r.intn(40))
	}
	add, rm := "", ""
	func() {
		defer func() {
			if rec := recover(); rec != nil {
				add, rm = "panic", "panic"
			}
		}()
		out, err := ml.AddLabelHeaderToPacket(buf, label)
		if err != nil {
			add, rm = lblErr(err), "-"
			return
		}
		add = fmt.Sprintf("%d.%d", len(out), digest(out))
		nb, lab, err := ml.RemoveLabelHeaderFromPacket(out)
		if err != nil {
			rm = lblErr(err)
			return
		}
		rm = fmt.Sprintf("ok:%s:%d.%d", hx(nb), len(lab), digest([]byte(lab)))
	}()
	emit("C16 lbl id=%s ll=%d lc=%d lhex=%s buf=%s add=%s rm=%s", id, ll, label2c(label), hx([]byte(label)), hx(buf), add, rm)
}

func label2c(l string) int {
	if l == "" {
		return 0
	}
	return int(l[0])
}

// raw (possibly hostile) bytes through the packet and the stream remover
func c16Rm(r *rng, id string) {
	var buf []byte
	switch r.intn(4) {
	case 0:
		buf = r.bytes(r.intn(8))
	case 1:
		buf = append([]byte{244, byte(r.intn(6))}, r.bytes(r.intn(8))...)
	case 2:
		buf = []byte{244}
	default:
		l := 1 + r.intn(5)
		buf = append([]byte{244, byte(l)}, r.bytes(l+r.intn(6))...)
	}
	pk, st := "", ""
	func() {
		defer func() {
			if rec := recover(); rec != nil {
				pk = "panic"
			}
		}()
		nb, lab, err := ml.RemoveLabelHeaderFromPacket(append([]byte(nil), buf...))
		if err != nil {
			pk = lblErr(err)
			return
		}
		pk = fmt.Sprintf("ok:%s:%s", hx(nb), hx([]byte(lab)))
	}()
	func() {
		defer func() {
			if rec := recover(); rec != nil {
				st = "panic"
			}
		}()
		conn, lab, err := ml.RemoveLabelHeaderFromStream(newFragConn(append([]byte(nil), buf...), randCuts(r, len(buf))))
		if err != nil {
			st = lblErr(err)
			return
		}
		// the remainder is read the way different consumers do: all at once, or in small chunks
		// (a first read shorter than what the label parser had read ahead)
		var rest []byte
		if r.chance(1, 2) {
			rest, _ = io.ReadAll(conn)
		} else {
			for {
				chunk := make([]byte, 1+r.intn(7))
				n, err := conn.Read(chunk)
				rest = append(rest, chunk[:n]...)
				if err != nil {
					break
				}
			}
		}
		st = fmt.Sprintf("ok:%s:%s", hx(rest), hx([]byte(lab)))
	}()
	emit("C16 rm id=%s buf=%s pk=%s st=%s", id, hx(buf), pk, st)
}

var gateLabels = []string{"", "a", "ab", "b", strings.Repeat("x", 255), strings.Repeat("x", 254) + "y"}

// gate: sender label x receiver label x SkipInboundLabelCheck x path; is a user message acted on?
func c16Gate(r *rng, id string) {
	si, ri := r.intn(len(gateLabels)), r.intn(len(gateLabels))
	if r.chance(1, 3) {
		ri = si
	}
	skip := r.chance(1, 3)
	enc := r.chance(1, 3)
	var key []byte
	if enc {
		key = mkKey(r, 16)
	}
	// the sender may delegate its own inbound check too: that must not change what it sends
	sskip := r.chance(1, 3)
	snd, err := newCnode(ccfg{label: gateLabels[si], key: key, verifyIn: true, verifyOut: true, skipIn: sskip})
	if err != nil {
		return
	}
	defer snd.m.Shutdown()
	rcv, err := newCnode(ccfg{label: gateLabels[ri], key: key, verifyIn: true, verifyOut: true, skipIn: skip, name: "R"})
	if err != nil {
		return
	}
	defer rcv.m.Shutdown()
	to := &ml.Node{Name: "R", Addr: []byte{10, 0, 0, 1}, Port: 7946, PMax: 5}
	payload := []byte("gate-probe")
	path := []string{"pkt", "str", "ping"}[r.intn(3)]
	acted, replied, pan := 0, 0, 0
	func() {
		defer func() {
			if rec := recover(); rec != nil {
				pan = 1
			}
		}()
		rcv.tr.take()
		switch path {
		case "pkt":
			snd.tr.take()
			snd.m.SendBestEffort(to, payload)
			for _, p := range snd.tr.take() {
				rcv.ingest(p)
			}
		case "ping":
			snd.tr.take()
			ping, _ := ml.VerifEncode(0, 99, "R", nil)
			ml.VerifRawSendMsgPacket(snd.m, ml.Address{Addr: "10.0.0.1:7946", Name: "R"}, to, ping)
			for _, p := range snd.tr.take() {
				rcv.ingest(p)
			}
		case "str":
			data := captureStream(snd, func() { snd.m.SendReliable(to, payload) })
			fc := newFragConn(data, randCuts(r, len(data)))
			ml.VerifHandleConn(rcv.m, fc)
			if len(fc.written()) > 0 {
				replied = 1
			}
		}
		if len(rcv.del.take()) > 0 {
			acted = 1
		}
		if len(rcv.tr.take()) > 0 {
			replied = 1
		}
	}()
	emit("C16 gate id=%s s=%d r=%d same=%d slen=%d rlen=%d skip=%d sskip=%d enc=%d path=%s acted=%d replied=%d panic=%d",
		id, si, ri, b2i(gateLabels[si] == gateLabels[ri]), len(gateLabels[si]), len(gateLabels[ri]), b2i(skip), b2i(sskip), b2i(enc), path, acted, replied, pan)
}

// c16Alias: nodes of two logical clusters in one process send in turn through transports that keep
// the slices they are handed (as the package's own MockTransport does until the receiver has handled
// them). A packet that has left one node must not be rewritten by a later send of any node: it would
// reach its receiver carrying another cluster's label and content.
func c16Alias(r *rng, id string) {
	labels := []string{"east", "west", "east"}
	var nodes []*cnode
	for i, l := range labels {
		n, err := newCnode(ccfg{label: l, name: fmt.Sprintf("a%d", i), compress: r.chance(1, 2)})
		if err != nil {
			for _, x := range nodes {
				x.m.Shutdown()
			}
			return
		}
		n.tr.keepRefs = true
		nodes = append(nodes, n)
	}
	defer func() {
		for _, x := range nodes {
			x.m.Shutdown()
		}
	}()
	to := &ml.Node{Name: "peer", Addr: []byte{10, 0, 0, 1}, Port: 7946, PMax: 5}
	plen := 1 + r.intn(40)
	sends := 0
	for k := 0; k < 30; k++ {
		n := nodes[r.intn(len(nodes))]
		payload := r.bytes(plen)
		if r.chance(1, 4) {
			payload = r.bytes(1 + r.intn(60))
		}
		n.m.SendBestEffort(to, payload)
		sends++
	}
	rewritten, first := 0, "-"
	for i, n := range nodes {
		n.tr.mu.Lock()
		for j := range n.tr.refs {
			if j < len(n.tr.sent) && !bytes.Equal(n.tr.refs[j], n.tr.sent[j]) {
				rewritten++
				if first == "-" {
					first = fmt.Sprintf("node%d(%s)packet%d", i, labels[i], j)
				}
			}
		}
		n.tr.mu.Unlock()
	}
	emit("C16 alias id=%s sends=%d rewritten=%d first=%s", id, sends, rewritten, first)
}

func TestC16(t *testing.T) {
	n := envInt("VERIF_N", 2000)
	if thorough() {
		n = envInt("VERIF_N", 80000)
	}
	forCases(n, 161, "l", func(i int, r *rng, id string) { c16Lbl(r, id) })
	forCases(2*n, 162, "m", func(i int, r *rng, id string) { c16Rm(r, id) })
	forCases(n/2, 163, "g", func(i int, r *rng, id string) { c16Gate(r, id) })
	forCases(n/20+5, 164, "a", func(i int, r *rng, id string) { c16Alias(r, id) })
}
